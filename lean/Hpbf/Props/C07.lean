/-
Property C07.  "For every program, input and budget, limited execution returns in time bounded by
the budget; if it reports 'finished' its input/output events equal the complete canonical sequence,
otherwise they are a prefix of it.  With an effectively unlimited budget every canonically terminating
program reports 'finished', and a canonically divergent program never does."

The in-place interpreter is covered by C04 (`inplace_limited`, `inplace_limited_terminates`,
`inplace_limited_enough`).  Here: the IR interpreter (`Ir.run blk limited budget fuel env`, model of
`execute_block::<LIMITED>`) and the bytecode machine (`Bc.run p limited budget fuel env`, model of the
threaded interpreter), for every cell width `w`, every program (`blk` / `p`, also malformed bytecode),
every environment `env` and every budget `b`.  The LIMITED run is related to the UNLIMITED run
(`limited = false`, budget `0`) of the same program; the unlimited run is tied to the canonical
semantics by C01 / C02.  `fuel` only bounds the number of machine steps of the model; `.outOfFuel`
means "has not returned yet".

* `*_limited_done/_stopped/_bad`: a limited run that returns "finished" (ran off the end, stopped at a
  failing I/O operation, or hit malformed bytecode) ends in exactly the state of the unlimited run;
* `*_limited_prefix`: whatever outcome the limited run has, its events are the events of the unlimited
  run after some number of steps (nothing extra, nothing reordered);
* `*_limited_enough`: if the unlimited run returns after `g` steps, every budget `b ≥ g` is enough;
* `*_limited_terminates`: the limited run returns within an explicit number of steps;
* `*_divergent_never_finished`: if the unlimited run never returns, no limited run reports "finished".
Proofs: `Hpbf/Proofs/C07.lean`.
-/
import Hpbf.Proofs.C07

namespace Hpbf
namespace C07

variable {w : Nat}

/-! ## The IR interpreter -/

example (c : Ir.Cfg w) : traceOfIr (.done c) = c.st.trace := rfl
example (c : Ir.Cfg w) : traceOfIr (.stopped c) = c.st.trace := rfl
example (c : Ir.Cfg w) : traceOfIr (.interrupted c) = c.st.trace := rfl
example (c : Ir.Cfg w) : traceOfIr (.outOfFuel c) = c.st.trace := rfl

/-- Initial configuration of `Ir.run`. -/
def irInit (blk : Ir.Block w) (b : Nat) (env : Env) : Ir.Cfg w :=
  { cur := blk.insts, conts := [], budget := b, st := State.init env }

theorem ir_run_eq (blk : Ir.Block w) (l : Bool) (b f : Nat) (env : Env) :
    Ir.run blk l b f env = Ir.runCfg l f (irInit blk b env) := rfl

section Ir
variable (blk : Ir.Block w) (env : Env)

/-- (a) A limited run that ran off the end did what the unlimited run does. -/
theorem ir_limited_done :
    ∀ (b f : Nat) (c : Ir.Cfg w), Ir.run blk true b f env = .done c →
      ∃ g c', Ir.run blk false 0 g env = .done c' ∧ c'.st = c.st := by
  intro b f c h
  have := ir_lim_rel f (irInit blk b env)
  rw [ir_run_eq] at h
  rw [h] at this
  exact ⟨f, irErase c, this, rfl⟩

/-- (a) A limited run that stopped at a failing I/O operation did what the unlimited run does. -/
theorem ir_limited_stopped :
    ∀ (b f : Nat) (c : Ir.Cfg w), Ir.run blk true b f env = .stopped c →
      ∃ g c', Ir.run blk false 0 g env = .stopped c' ∧ c'.st = c.st := by
  intro b f c h
  have := ir_lim_rel f (irInit blk b env)
  rw [ir_run_eq] at h
  rw [h] at this
  exact ⟨f, irErase c, this, rfl⟩

/-- (b) Whatever the limited run has emitted (finished, interrupted or still running) is what the
unlimited run has emitted after some number `g ≤ f` of steps. -/
theorem ir_limited_prefix :
    ∀ b f, ∃ g, g ≤ f ∧
      traceOfIr (Ir.run blk true b f env) = traceOfIr (Ir.run (w := w) blk false 0 g env) := by
  intro b f
  have := ir_lim_rel f (irInit blk b env)
  rw [ir_run_eq]
  cases hr : Ir.runCfg true f (irInit blk b env) with
  | done c => rw [hr] at this; exact ⟨f, Nat.le_refl _, by rw [ir_run_eq]; erw [this]; rfl⟩
  | stopped c => rw [hr] at this; exact ⟨f, Nat.le_refl _, by rw [ir_run_eq]; erw [this]; rfl⟩
  | outOfFuel c => rw [hr] at this; exact ⟨f, Nat.le_refl _, by rw [ir_run_eq]; erw [this]; rfl⟩
  | interrupted c =>
    rw [hr] at this
    obtain ⟨g, c'', hg, hrun, ht⟩ := this
    exact ⟨g, by omega, by rw [ir_run_eq]; erw [hrun]; exact ht.symm⟩

/-- (b) Literally a prefix: the events of the limited run (whatever its outcome) are an initial part of
the events of the unlimited run after `g'` steps, for every sufficiently large `g'` (traces are most
recent first, so "initial part" is `<:+`). -/
theorem ir_limited_is_prefix :
    ∀ b f, ∃ g, ∀ g', g ≤ g' →
      traceOfIr (Ir.run blk true b f env) <:+ traceOfIr (Ir.run (w := w) blk false 0 g' env) := by
  intro b f
  obtain ⟨g, _, hg⟩ := ir_limited_prefix blk env b f
  refine ⟨g, fun g' hg' => ?_⟩
  obtain ⟨k, rfl⟩ : ∃ k, g' = g + k := ⟨g' - g, by omega⟩
  rw [hg]
  exact ir_trace_add false g k _

/-- (c) If the unlimited run runs off the end within `g` steps, every budget `b ≥ g` is enough. -/
theorem ir_limited_enough :
    ∀ (g : Nat) (c : Ir.Cfg w), Ir.run blk false 0 g env = .done c → ∀ b, g ≤ b →
      ∃ f c', Ir.run blk true b f env = .done c' ∧ c'.st = c.st := by
  intro g c h b hb
  have hrel := ir_lim_rel g (irInit blk b env)
  have hni := ir_not_interrupted g (irInit blk b env) hb
  have h' : Ir.runCfg false g (irErase (irInit blk b env)) = .done c := h
  refine ⟨g, ?_⟩
  rw [ir_run_eq]
  cases hr : Ir.runCfg true g (irInit blk b env) with
  | done c' =>
    rw [hr] at hrel; simp only [IrLimRel] at hrel
    rw [hrel] at h'; cases h'
    exact ⟨c', rfl, rfl⟩
  | stopped c' => rw [hr] at hrel; simp only [IrLimRel] at hrel; rw [hrel] at h'; cases h'
  | outOfFuel c' => rw [hr] at hrel; simp only [IrLimRel] at hrel; rw [hrel] at h'; cases h'
  | interrupted c' => exact (hni c' hr).elim

/-- (c) The same for an unlimited run that stops at a failing I/O operation. -/
theorem ir_limited_enough_stopped :
    ∀ (g : Nat) (c : Ir.Cfg w), Ir.run blk false 0 g env = .stopped c → ∀ b, g ≤ b →
      ∃ f c', Ir.run blk true b f env = .stopped c' ∧ c'.st = c.st := by
  intro g c h b hb
  have hrel := ir_lim_rel g (irInit blk b env)
  have hni := ir_not_interrupted g (irInit blk b env) hb
  have h' : Ir.runCfg false g (irErase (irInit blk b env)) = .stopped c := h
  refine ⟨g, ?_⟩
  rw [ir_run_eq]
  cases hr : Ir.runCfg true g (irInit blk b env) with
  | done c' => rw [hr] at hrel; simp only [IrLimRel] at hrel; rw [hrel] at h'; cases h'
  | stopped c' =>
    rw [hr] at hrel; simp only [IrLimRel] at hrel
    rw [hrel] at h'; cases h'
    exact ⟨c', rfl, rfl⟩
  | outOfFuel c' => rw [hr] at hrel; simp only [IrLimRel] at hrel; rw [hrel] at h'; cases h'
  | interrupted c' => exact (hni c' hr).elim

/-- (d) The limited run returns within `(b + 1) * (size + 1)` steps, `size` the number of instructions
of the program counted recursively: every loop/if end consumes one unit of budget and fewer than
`size + 1` steps happen between two of them. -/
theorem ir_limited_terminates :
    ∀ (b f : Nat), (b + 1) * (irSizeL blk.insts + 1) ≤ f →
      ∀ c, Ir.run blk true b f env ≠ .outOfFuel c := by
  intro b f hf c
  rw [ir_run_eq]
  refine ir_limited_halts (irSizeL blk.insts) f (irInit blk b env) ⟨?_, trivial⟩ ?_ c
  · simp [irMu, irInit, contW]
  · have : (b + 1) * (irSizeL blk.insts + 1) = b * (irSizeL blk.insts + 1) + (irSizeL blk.insts + 1) :=
      Nat.succ_mul _ _
    simp only [irPhi, irMu, irInit, contW]
    omega

/-- (e) If the unlimited run never returns, no limited run reports completion. -/
theorem ir_divergent_never_finished
    (hdiv : ∀ g, ∃ c, Ir.run blk false 0 g env = .outOfFuel c) :
    ∀ (b f : Nat) (c : Ir.Cfg w),
      Ir.run blk true b f env ≠ .done c ∧ Ir.run blk true b f env ≠ .stopped c := by
  intro b f c
  constructor
  · intro h
    obtain ⟨g, c', hg, _⟩ := ir_limited_done blk env b f c h
    obtain ⟨c'', hc''⟩ := hdiv g
    rw [hg] at hc''; cases hc''
  · intro h
    obtain ⟨g, c', hg, _⟩ := ir_limited_stopped blk env b f c h
    obtain ⟨c'', hc''⟩ := hdiv g
    rw [hg] at hc''; cases hc''

end Ir

/-! ## The bytecode machine -/

example (c : Bc.Cfg w) : traceOfBc (.done c) = c.st.trace := rfl
example (c : Bc.Cfg w) : traceOfBc (.stopped c) = c.st.trace := rfl
example (c : Bc.Cfg w) : traceOfBc (.interrupted c) = c.st.trace := rfl
example (c : Bc.Cfg w) : traceOfBc (.bad c) = c.st.trace := rfl
example (c : Bc.Cfg w) : traceOfBc (.outOfFuel c) = c.st.trace := rfl

/-- Initial configuration of `Bc.run`. -/
def bcInit (b : Nat) (env : Env) : Bc.Cfg w :=
  { pc := 0, temps := [], budget := b, st := State.init env }

theorem bc_run_unlimited (p : Bc.Program w) (b f : Nat) (env : Env) :
    Bc.run p false b f env = Bc.runCfg p false f (bcInit b env) := by
  simp [Bc.run, bcInit]

theorem bc_run_limited (p : Bc.Program w) {b : Nat} (hb : b ≠ 0) (f : Nat) (env : Env) :
    Bc.run p true b f env = Bc.runCfg p true f (bcInit b env) := by
  simp [Bc.run, bcInit, hb]

/-- Budget 0: interrupted before anything runs. -/
theorem bc_run_limited_zero (p : Bc.Program w) (f : Nat) (env : Env) :
    Bc.run p true 0 f env = .interrupted (bcInit 0 env) := by
  simp [Bc.run, bcInit]

section Bc
variable (p : Bc.Program w) (env : Env)

/-- (a) A limited run that reached the end of the code did what the unlimited run does. -/
theorem bc_limited_done :
    ∀ (b f : Nat) (c : Bc.Cfg w), Bc.run p true b f env = .done c →
      ∃ g c', Bc.run p false 0 g env = .done c' ∧ c'.st = c.st := by
  intro b f c h
  by_cases hb : b = 0
  · subst hb; rw [bc_run_limited_zero] at h; cases h
  · rw [bc_run_limited p hb] at h
    have := bc_lim_rel p f (bcInit b env)
    rw [h] at this
    exact ⟨f, bcErase c, by rw [bc_run_unlimited]; exact this, rfl⟩

/-- (a) … stopped at a failing I/O operation … -/
theorem bc_limited_stopped :
    ∀ (b f : Nat) (c : Bc.Cfg w), Bc.run p true b f env = .stopped c →
      ∃ g c', Bc.run p false 0 g env = .stopped c' ∧ c'.st = c.st := by
  intro b f c h
  by_cases hb : b = 0
  · subst hb; rw [bc_run_limited_zero] at h; cases h
  · rw [bc_run_limited p hb] at h
    have := bc_lim_rel p f (bcInit b env)
    rw [h] at this
    exact ⟨f, bcErase c, by rw [bc_run_unlimited]; exact this, rfl⟩

/-- (a) … hit malformed bytecode: so does the unlimited run, in the same state. -/
theorem bc_limited_bad :
    ∀ (b f : Nat) (c : Bc.Cfg w), Bc.run p true b f env = .bad c →
      ∃ g c', Bc.run p false 0 g env = .bad c' ∧ c'.st = c.st := by
  intro b f c h
  by_cases hb : b = 0
  · subst hb; rw [bc_run_limited_zero] at h; cases h
  · rw [bc_run_limited p hb] at h
    have := bc_lim_rel p f (bcInit b env)
    rw [h] at this
    exact ⟨f, bcErase c, by rw [bc_run_unlimited]; exact this, rfl⟩

/-- (b) Whatever the limited run has emitted is what the unlimited run has emitted after some number
`g ≤ f` of steps. -/
theorem bc_limited_prefix :
    ∀ b f, ∃ g, g ≤ f ∧
      traceOfBc (Bc.run p true b f env) = traceOfBc (Bc.run (w := w) p false 0 g env) := by
  intro b f
  by_cases hb : b = 0
  · subst hb
    exact ⟨0, Nat.zero_le _, by rw [bc_run_limited_zero, bc_run_unlimited]; rfl⟩
  · rw [bc_run_limited p hb]
    have := bc_lim_rel p f (bcInit b env)
    cases hr : Bc.runCfg p true f (bcInit b env) with
    | done c => rw [hr] at this; exact ⟨f, Nat.le_refl _, by rw [bc_run_unlimited]; erw [this]; rfl⟩
    | stopped c => rw [hr] at this; exact ⟨f, Nat.le_refl _, by rw [bc_run_unlimited]; erw [this]; rfl⟩
    | bad c => rw [hr] at this; exact ⟨f, Nat.le_refl _, by rw [bc_run_unlimited]; erw [this]; rfl⟩
    | outOfFuel c => rw [hr] at this; exact ⟨f, Nat.le_refl _, by rw [bc_run_unlimited]; erw [this]; rfl⟩
    | interrupted c =>
      rw [hr] at this
      obtain ⟨g, c'', hg, hrun, ht⟩ := this
      exact ⟨g, by omega, by rw [bc_run_unlimited]; erw [hrun]; simp [traceOfBc, ht]⟩

/-- (b) Literally a prefix (see `ir_limited_is_prefix`). -/
theorem bc_limited_is_prefix :
    ∀ b f, ∃ g, ∀ g', g ≤ g' →
      traceOfBc (Bc.run p true b f env) <:+ traceOfBc (Bc.run (w := w) p false 0 g' env) := by
  intro b f
  obtain ⟨g, _, hg⟩ := bc_limited_prefix p env b f
  refine ⟨g, fun g' hg' => ?_⟩
  obtain ⟨k, rfl⟩ : ∃ k, g' = g + k := ⟨g' - g, by omega⟩
  rw [hg, bc_run_unlimited, bc_run_unlimited]
  exact bc_trace_add p false g k _

/-- Outcome of the limited run with fuel `g ≤ b`, given the unlimited outcome with fuel `g`. -/
theorem bc_enough_aux {g b : Nat} (hg : g ≤ b) :
    (∀ c', Bc.runCfg p true g (bcInit b env) ≠ .interrupted c') ∨
    (∃ c'', Bc.runCfg p false g (bcInit 0 env) = .outOfFuel c'') ∨
    (¬ g < b ∧ ∃ c'', Bc.runCfg p false g (bcInit 0 env) = .bad c'') := by
  by_cases h : ∃ c', Bc.runCfg p true g (bcInit b env) = .interrupted c'
  · obtain ⟨c', hc'⟩ := h
    exact Or.inr (bc_interrupted_unlimited p g (bcInit b env) c' hg hc')
  · exact Or.inl (fun c' hc' => h ⟨c', hc'⟩)

/-- (c) If the unlimited run reaches the end of the code within `g` steps, every budget `b ≥ g` is
enough. -/
theorem bc_limited_enough :
    ∀ (g : Nat) (c : Bc.Cfg w), Bc.run p false 0 g env = .done c → ∀ b, g ≤ b →
      ∃ f c', Bc.run p true b f env = .done c' ∧ c'.st = c.st := by
  intro g c h b hgb
  rw [bc_run_unlimited] at h
  have hb : b ≠ 0 := by
    rintro rfl
    have : g = 0 := by omega
    subst this; cases h
  refine ⟨g, ?_⟩
  rw [bc_run_limited p hb]
  have hrel := bc_lim_rel p g (bcInit b env)
  have h' : Bc.runCfg p false g (bcErase (bcInit b env)) = .done c := h
  rcases bc_enough_aux p env hgb with hni | ⟨c'', hc''⟩ | ⟨_, c'', hc''⟩
  · cases hr : Bc.runCfg p true g (bcInit b env) with
    | done c' =>
      rw [hr] at hrel; simp only [BcLimRel] at hrel
      rw [hrel] at h'; cases h'
      exact ⟨c', rfl, rfl⟩
    | stopped c' => rw [hr] at hrel; simp only [BcLimRel] at hrel; rw [hrel] at h'; cases h'
    | bad c' => rw [hr] at hrel; simp only [BcLimRel] at hrel; rw [hrel] at h'; cases h'
    | outOfFuel c' => rw [hr] at hrel; simp only [BcLimRel] at hrel; rw [hrel] at h'; cases h'
    | interrupted c' => exact (hni c' hr).elim
  · rw [h] at hc''; cases hc''
  · rw [h] at hc''; cases hc''

/-- (c) The same for an unlimited run that stops at a failing I/O operation. -/
theorem bc_limited_enough_stopped :
    ∀ (g : Nat) (c : Bc.Cfg w), Bc.run p false 0 g env = .stopped c → ∀ b, g ≤ b →
      ∃ f c', Bc.run p true b f env = .stopped c' ∧ c'.st = c.st := by
  intro g c h b hgb
  rw [bc_run_unlimited] at h
  have hb : b ≠ 0 := by
    rintro rfl
    have : g = 0 := by omega
    subst this; cases h
  refine ⟨g, ?_⟩
  rw [bc_run_limited p hb]
  have hrel := bc_lim_rel p g (bcInit b env)
  have h' : Bc.runCfg p false g (bcErase (bcInit b env)) = .stopped c := h
  rcases bc_enough_aux p env hgb with hni | ⟨c'', hc''⟩ | ⟨_, c'', hc''⟩
  · cases hr : Bc.runCfg p true g (bcInit b env) with
    | done c' => rw [hr] at hrel; simp only [BcLimRel] at hrel; rw [hrel] at h'; cases h'
    | stopped c' =>
      rw [hr] at hrel; simp only [BcLimRel] at hrel
      rw [hrel] at h'; cases h'
      exact ⟨c', rfl, rfl⟩
    | bad c' => rw [hr] at hrel; simp only [BcLimRel] at hrel; rw [hrel] at h'; cases h'
    | outOfFuel c' => rw [hr] at hrel; simp only [BcLimRel] at hrel; rw [hrel] at h'; cases h'
    | interrupted c' => exact (hni c' hr).elim
  · rw [h] at hc''; cases hc''
  · rw [h] at hc''; cases hc''

/-- (c) Malformed bytecode reached by the unlimited run within `g` steps is reached by the limited run
with every budget `b > g` (a branch needs a budget of at least 2 to be executed). -/
theorem bc_limited_enough_bad :
    ∀ (g : Nat) (c : Bc.Cfg w), Bc.run p false 0 g env = .bad c → ∀ b, g < b →
      ∃ f c', Bc.run p true b f env = .bad c' ∧ c'.st = c.st := by
  intro g c h b hgb
  rw [bc_run_unlimited] at h
  have hb : b ≠ 0 := by omega
  refine ⟨g, ?_⟩
  rw [bc_run_limited p hb]
  have hrel := bc_lim_rel p g (bcInit b env)
  have h' : Bc.runCfg p false g (bcErase (bcInit b env)) = .bad c := h
  rcases bc_enough_aux p env (Nat.le_of_lt hgb) with hni | ⟨c'', hc''⟩ | ⟨hn, _⟩
  · cases hr : Bc.runCfg p true g (bcInit b env) with
    | done c' => rw [hr] at hrel; simp only [BcLimRel] at hrel; rw [hrel] at h'; cases h'
    | stopped c' => rw [hr] at hrel; simp only [BcLimRel] at hrel; rw [hrel] at h'; cases h'
    | bad c' =>
      rw [hr] at hrel; simp only [BcLimRel] at hrel
      rw [hrel] at h'; cases h'
      exact ⟨c', rfl, rfl⟩
    | outOfFuel c' => rw [hr] at hrel; simp only [BcLimRel] at hrel; rw [hrel] at h'; cases h'
    | interrupted c' => exact (hni c' hr).elim
  · rw [h] at hc''; cases hc''
  · exact (hn hgb).elim

/-- (d) A program without a moving scan returns within `(b + 1) * (size + 2)` steps in limited mode:
every branch consumes one unit of budget and between two branches the program counter only grows. -/
theorem bc_limited_terminates_scanfree (hsf : ScanFree p) :
    ∀ (b f : Nat), (b + 1) * (p.insts.size + 2) ≤ f →
      ∀ c, Bc.run p true b f env ≠ .outOfFuel c := by
  intro b f hf c
  by_cases hb : b = 0
  · subst hb; rw [bc_run_limited_zero]; simp
  · rw [bc_run_limited p hb]
    refine bc_limited_halts_scanfree hsf f (bcInit b env) ?_ c
    have : (b + 1) * (p.insts.size + 2) = b * (p.insts.size + 2) + (p.insts.size + 2) :=
      Nat.succ_mul _ _
    simp only [bcPhi, bcInit]
    omega

/-- (d) Every program returns in limited mode (a moving scan is not charged, but it leaves the finite
non-zero part of the tape after finitely many steps). -/
theorem bc_limited_terminates :
    ∀ b, ∃ f, ∀ c, Bc.run p true b f env ≠ .outOfFuel c := by
  intro b
  by_cases hb : b = 0
  · subst hb; exact ⟨0, fun c => by rw [bc_run_limited_zero]; simp⟩
  · obtain ⟨f, hf⟩ := bc_limited_halts p (bcPhi p (bcInit b env) + 1) (bcInit b env) (Nat.lt_succ_self _)
    exact ⟨f, fun c => by rw [bc_run_limited p hb]; exact hf c⟩

/-- (e) If the unlimited run never returns, no limited run reports completion. -/
theorem bc_divergent_never_finished
    (hdiv : ∀ g, ∃ c, Bc.run p false 0 g env = .outOfFuel c) :
    ∀ (b f : Nat) (c : Bc.Cfg w),
      Bc.run p true b f env ≠ .done c ∧ Bc.run p true b f env ≠ .stopped c ∧
      Bc.run p true b f env ≠ .bad c := by
  intro b f c
  refine ⟨?_, ?_, ?_⟩
  · intro h
    obtain ⟨g, c', hg, _⟩ := bc_limited_done p env b f c h
    obtain ⟨c'', hc''⟩ := hdiv g
    rw [hg] at hc''; cases hc''
  · intro h
    obtain ⟨g, c', hg, _⟩ := bc_limited_stopped p env b f c h
    obtain ⟨c'', hc''⟩ := hdiv g
    rw [hg] at hc''; cases hc''
  · intro h
    obtain ⟨g, c', hg, _⟩ := bc_limited_bad p env b f c h
    obtain ⟨c'', hc''⟩ := hdiv g
    rw [hg] at hc''; cases hc''

end Bc

/-! ## Satisfiability of the hypotheses on concrete programs (kernel evaluation) -/

/-- no source, present sink that never refuses -/
def exEnv0 : Env := { input := none, sink := true, outOk := none }

/-- IR of `+++[-.]` : prints 2, 1, 0 -/
def exIrCount : Ir.Block 8 :=
  { shift := 0, insts := [Ir.Instr.add 0 3#8, .loop 0 0 [Ir.Instr.add 0 (-1#8), .output 0] false] }
/-- IR of `+[.]` : prints 1 forever -/
def exIrSpin : Ir.Block 8 :=
  { shift := 0, insts := [Ir.Instr.add 0 1#8, .loop 0 0 [.output 0] false] }

def irKind : Ir.Outcome w → String
  | .done _ => "done" | .stopped _ => "stopped" | .interrupted _ => "interrupted"
  | .outOfFuel _ => "outOfFuel"

-- (a)/(c): the unlimited run of `exIrCount` runs off the end after 13 steps; budget 13 is enough
example : irKind (Ir.run exIrCount false 0 13 exEnv0) = "done" := by decide
example : irKind (Ir.run exIrCount true 13 13 exEnv0) = "done" := by decide
example : traceOfIr (Ir.run exIrCount true 13 13 exEnv0) = [Ev.out 0, Ev.out 1, Ev.out 2] := by decide
-- (b): with budget 1 the run is interrupted having printed a proper prefix
example : irKind (Ir.run exIrCount true 1 13 exEnv0) = "interrupted" := by decide
example : traceOfIr (Ir.run exIrCount true 1 13 exEnv0) = [Ev.out 1, Ev.out 2] := by decide
-- (d): size 4, budget 2: returns within (2+1)*(4+1) steps
example : irSizeL exIrCount.insts = 4 := by decide
example : irKind (Ir.run exIrCount true 2 ((2 + 1) * (4 + 1)) exEnv0) = "interrupted" := by decide
-- (e): `+[.]` never returns in unlimited mode (here: not within 40 steps), interrupted with budget 5
example : irKind (Ir.run exIrSpin false 0 40 exEnv0) = "outOfFuel" := by decide
example : irKind (Ir.run exIrSpin true 5 40 exEnv0) = "interrupted" := by decide
-- a refusing sink: stopped, in limited mode too
example : irKind (Ir.run exIrSpin true 5 40 { exEnv0 with outOk := some 2 }) = "stopped" := by decide

/-- bytecode of `+++[-.]`: add; brz; sub; out; brnz -/
def exBcCount : Bc.Program 8 :=
  { temps := 0, minAcc := 0, maxAcc := 0, live := #[],
    insts := #[.add (.mem 0) (.mem 0) (.imm 3#8), .brz 0 4, .sub (.mem 0) (.mem 0) (.imm 1#8), .out 0,
               .brnz 0 (-2)] }
/-- bytecode `+; scan 0 0` (a stationary scan on a non-zero cell) -/
def exBcSpin : Bc.Program 8 :=
  { temps := 0, minAcc := 0, maxAcc := 0, live := #[],
    insts := #[.add (.mem 0) (.mem 0) (.imm 1#8), .scan 0 0] }
/-- a branch out of the program -/
def exBcBad : Bc.Program 8 :=
  { temps := 0, minAcc := 0, maxAcc := 0, live := #[], insts := #[.brz 0 7] }

def bcKind : Bc.Outcome w → String
  | .done _ => "done" | .stopped _ => "stopped" | .interrupted _ => "interrupted" | .bad _ => "bad"
  | .outOfFuel _ => "outOfFuel"

example : bcKind (Bc.run exBcCount false 0 12 exEnv0) = "done" := by decide
example : bcKind (Bc.run exBcCount true 12 12 exEnv0) = "done" := by decide
example : traceOfBc (Bc.run exBcCount true 12 12 exEnv0) = [Ev.out 0, Ev.out 1, Ev.out 2] := by decide
example : bcKind (Bc.run exBcCount true 3 12 exEnv0) = "interrupted" := by decide
example : traceOfBc (Bc.run exBcCount true 3 12 exEnv0) = [Ev.out 1, Ev.out 2] := by decide
example : bcKind (Bc.run exBcCount true 0 12 exEnv0) = "interrupted" := by decide
example : ScanFree exBcCount := by
  intro i cond sh h
  have hi : i < 5 := getElem?_some_lt h
  have : i = 0 ∨ i = 1 ∨ i = 2 ∨ i = 3 ∨ i = 4 := by omega
  rcases this with rfl | rfl | rfl | rfl | rfl <;> simp [exBcCount] at h
example : bcKind (Bc.run exBcCount true 3 ((3 + 1) * (5 + 2)) exEnv0) = "interrupted" := by decide
example : bcKind (Bc.run exBcSpin false 0 40 exEnv0) = "outOfFuel" := by decide
example : bcKind (Bc.run exBcSpin true 1000 40 exEnv0) = "interrupted" := by decide
example : bcKind (Bc.run exBcBad false 0 1 exEnv0) = "bad" := by decide
example : bcKind (Bc.run exBcBad true 2 1 exEnv0) = "bad" := by decide
-- budget = number of steps is not enough for `.bad` (hence `g < b` in `bc_limited_enough_bad`)
example : bcKind (Bc.run exBcBad true 1 1 exEnv0) = "interrupted" := by decide

end C07
end Hpbf

#print axioms Hpbf.C07.ir_limited_done
#print axioms Hpbf.C07.ir_limited_stopped
#print axioms Hpbf.C07.ir_limited_prefix
#print axioms Hpbf.C07.ir_limited_is_prefix
#print axioms Hpbf.C07.ir_limited_enough
#print axioms Hpbf.C07.ir_limited_enough_stopped
#print axioms Hpbf.C07.ir_limited_terminates
#print axioms Hpbf.C07.ir_divergent_never_finished
#print axioms Hpbf.C07.bc_limited_done
#print axioms Hpbf.C07.bc_limited_stopped
#print axioms Hpbf.C07.bc_limited_bad
#print axioms Hpbf.C07.bc_limited_prefix
#print axioms Hpbf.C07.bc_limited_is_prefix
#print axioms Hpbf.C07.bc_limited_enough
#print axioms Hpbf.C07.bc_limited_enough_stopped
#print axioms Hpbf.C07.bc_limited_enough_bad
#print axioms Hpbf.C07.bc_limited_terminates_scanfree
#print axioms Hpbf.C07.bc_limited_terminates
#print axioms Hpbf.C07.bc_divergent_never_finished
