/-
C14 — cell arithmetic helpers meet their algebraic contracts at every width.

"For every cell width and all operands, the modular division helper returns the smallest x with
x*d = n (mod 2^width) and 'none' exactly when no such x exists; the modular inverse exists exactly
for odd values and multiplies back to 1; modular power equals repeated multiplication; zero/sign
extension and truncation conversions round-trip as documented."

Model: `Hpbf.Cell` (`Hpbf/Cell.lean`, mirrors `trait CellType` in `src/lib.rs`).  Cells are
`BitVec w`; `*`, `+` on `BitVec w` are Rust's `wrapping_mul` / `wrapping_add`; `≤` is the unsigned
order; `b ^ k` (`k : Nat`) is repeated multiplication (`BitVec.pow_zero`, `BitVec.pow_succ`).
All arithmetic theorems hold for every `w` with `0 < w`; the conversion theorems for `w ≤ 64`
(plus the stated lower bounds).  Proofs are in `Hpbf/Proofs/C14.lean`.
Every implication is followed by `example`s instantiating it on concrete values.
-/
import Hpbf.Proofs.C14

namespace Hpbf.C14
open Hpbf

variable {w : Nat}

/-! ### 1. power -/

/-- `wrapping_pow` is repeated multiplication; in particular `w` loop iterations suffice. -/
theorem pow_spec (hw : 0 < w) (b e : BitVec w) : Cell.wrappingPow b e = b ^ e.toNat :=
  Lemmas.pow_spec hw b e

example : Cell.wrappingPow (3#8) (5#8) = 243#8 := by decide
example : Cell.wrappingPow (3#16) (65535#16) = 43691#16 := by decide
example : Cell.wrappingPow (2#8) (255#8) = 0#8 := by decide
example : Cell.wrappingPow (0#8) (0#8) = 1#8 := by decide

/-! ### 2. inverse -/

/-- `is_odd` tests the low bit. -/
theorem isOdd_iff (hw : 0 < w) (x : BitVec w) : Cell.isOdd x = true ↔ x.toNat % 2 = 1 :=
  Lemmas.isOdd_iff hw x

example : Cell.isOdd (7#8) = true ∧ (7#8).toNat % 2 = 1 := by decide
example : Cell.isOdd (6#8) = false ∧ (6#8).toNat % 2 = 0 := by decide

/-- The inverse exists exactly for odd values. -/
theorem inv_isSome_iff (hw : 0 < w) (x : BitVec w) :
    (Cell.wrappingInv x).isSome = Cell.isOdd x :=
  Lemmas.inv_isSome_iff hw x

/-- The returned inverse multiplies back to one. -/
theorem inv_mul (hw : 0 < w) (x y : BitVec w) :
    Cell.wrappingInv x = some y → x * y = 1#w :=
  Lemmas.inv_mul hw x y

example : Cell.wrappingInv (7#8) = some (183#8) ∧ (7#8) * (183#8) = 1#8 := by decide
example : Cell.wrappingInv (5#8) = some (205#8) ∧ (5#8) * (205#8) = 1#8 := by decide
example : Cell.wrappingInv (0xDEADBEEF#32) = some (0x904B300F#32) := by decide
example : Cell.wrappingInv (1#1) = some (1#1) := by decide

/-- `none` exactly when no inverse exists (even numbers have no inverse mod `2^w`). -/
theorem inv_none_iff (hw : 0 < w) (x : BitVec w) :
    Cell.wrappingInv x = none ↔ ¬ ∃ y, x * y = 1#w :=
  Lemmas.inv_none_iff hw x

example : Cell.wrappingInv (64#8) = none := by decide
example : Cell.wrappingInv (0#8) = none := by decide
example : ¬ ∃ y, (64#8) * y = 1#8 := by decide

/-- For odd `x` the function returns `x ^ (2^(w-1) - 1)` and `x ^ (2^(w-1)) = 1`. -/
theorem inv_eq_pow (hw : 0 < w) (x : BitVec w) :
    Cell.wrappingInv x = if Cell.isOdd x then some (x ^ (2 ^ (w - 1) - 1)) else none :=
  Lemmas.wrappingInv_eq hw x

theorem odd_pow_totient (hw : 0 < w) (x : BitVec w) (hx : x.toNat % 2 = 1) :
    x ^ (2 ^ (w - 1)) = 1#w :=
  Lemmas.odd_pow_totient hw x hx

example : (3#8) ^ (2 ^ (8 - 1)) = 1#8 := odd_pow_totient (by decide) _ (by decide)

/-! ### 3. trailing zeros and division -/

/-- `trailing_zeros` of zero is the width. -/
theorem trailingZeros_zero : Cell.trailingZeros (0#w) = w := Lemmas.trailingZeros_zero

theorem trailingZeros_le (x : BitVec w) : Cell.trailingZeros x ≤ w := Lemmas.trailingZeros_le x

/-- For nonzero `x`, `trailing_zeros` is below the width. -/
theorem trailingZeros_lt (x : BitVec w) (hx : x ≠ 0#w) : Cell.trailingZeros x < w :=
  Lemmas.trailingZeros_lt x hx

/-- For nonzero `x`, `trailing_zeros x` is the largest `k` with `2^k ∣ x`. -/
theorem two_pow_dvd_iff_le_trailingZeros (x : BitVec w) (hx : x ≠ 0#w) (k : Nat) :
    2 ^ k ∣ x.toNat ↔ k ≤ Cell.trailingZeros x :=
  Lemmas.two_pow_dvd_iff_le_trailingZeros x hx k

/-- Same, in "divides but the next power does not" form. -/
theorem trailingZeros_spec (x : BitVec w) (hx : x ≠ 0#w) :
    2 ^ Cell.trailingZeros x ∣ x.toNat ∧ ¬ 2 ^ (Cell.trailingZeros x + 1) ∣ x.toNat := by
  refine ⟨(two_pow_dvd_iff_le_trailingZeros x hx _).2 (Nat.le_refl _), fun h => ?_⟩
  have := (two_pow_dvd_iff_le_trailingZeros x hx _).1 h
  omega

example : Cell.trailingZeros (0#8) = 8 := by decide
example : Cell.trailingZeros (40#8) = 3 ∧ 2 ^ 3 ∣ (40#8).toNat ∧ ¬ 2 ^ 4 ∣ (40#8).toNat := by decide
example : Cell.trailingZeros (128#8) = 7 := by decide
example : Cell.trailingZeros (1#8) = 0 := by decide

/-- `wrapping_div n d` returns the smallest `x` (unsigned order) with `x * d = n`. -/
theorem div_some_iff (hw : 0 < w) (n d x : BitVec w) :
    Cell.wrappingDiv n d = some x ↔ (x * d = n ∧ ∀ y, y * d = n → x ≤ y) :=
  Lemmas.div_some_iff hw n d x

example : Cell.wrappingDiv (8#8) (7#8) = some (184#8) ∧ (184#8) * (7#8) = 8#8 := by decide
example : Cell.wrappingDiv (32#8) (4#8) = some (8#8) := by decide
/- several roots (3, 131 with `d = 2`): the smallest is returned -/
example : Cell.wrappingDiv (6#8) (2#8) = some (3#8) ∧ (131#8) * (2#8) = 6#8 ∧ (3#8) * (2#8) = 6#8 := by
  decide
example : ∀ y : BitVec 8, y * (2#8) = 6#8 → (3#8) ≤ y :=
  ((div_some_iff (by decide) (6#8) (2#8) (3#8)).1 (by decide)).2
/- `0 / 0 = 0`, and `0 / d = 0` -/
example : Cell.wrappingDiv (0#8) (0#8) = some (0#8) := by decide
/- `s = 0` uses the `1 << w = 0` mask path; `d = 128` uses the `tot = 1 << 0` path -/
example : Cell.wrappingDiv (5#8) (1#8) = some (5#8) := by decide
example : Cell.wrappingDiv (128#8) (128#8) = some (1#8) := by decide

/-- `none` exactly when the equation `y * d = n` has no solution. -/
theorem div_none_iff (hw : 0 < w) (n d : BitVec w) :
    Cell.wrappingDiv n d = none ↔ ¬ ∃ y, y * d = n :=
  Lemmas.div_none_iff hw n d

example : Cell.wrappingDiv (5#8) (2#8) = none := by decide
example : Cell.wrappingDiv (32#8) (64#8) = none := by decide
example : Cell.wrappingDiv (1#8) (0#8) = none := by decide
example : ¬ ∃ y, y * (64#8) = 32#8 := by decide

/-- A solution exists iff `n = 0` or `d` has no more trailing zeros than `n`. -/
theorem div_isSome_iff (hw : 0 < w) (n d : BitVec w) :
    (Cell.wrappingDiv n d).isSome ↔ (n = 0#w ∨ Cell.trailingZeros d ≤ Cell.trailingZeros n) := by
  by_cases hn : n = 0#w
  · subst hn; simp [Lemmas.wrappingDiv_zero]
  · by_cases hs : Cell.trailingZeros d ≤ Cell.trailingZeros n
    · simp [Lemmas.wrappingDiv_some_eq hw n d hn hs, hs]
    · simp [Lemmas.wrappingDiv_none n d hn (by omega), hn, hs]

/-! ### 4. conversions -/

/-- `from_u64 (into_u64 x) = x`. -/
theorem fromU64_intoU64 (h : w ≤ 64) (x : BitVec w) : Cell.fromU64 (Cell.intoU64 x) = x :=
  Lemmas.fromU64_intoU64 h x

example : Cell.fromU64 (Cell.intoU64 (200#8)) = 200#8 := by decide

/-- `into_u64` is zero extension: the unsigned value is preserved. -/
theorem toNat_intoU64 (h : w ≤ 64) (x : BitVec w) : (Cell.intoU64 x).toNat = x.toNat :=
  Lemmas.toNat_intoU64 h x

example : (Cell.intoU64 (200#8)).toNat = 200 := by decide

/-- `into_i64` is sign extension: the signed value is preserved. -/
theorem toInt_intoI64 (h : w ≤ 64) (x : BitVec w) : (Cell.intoI64 x).toInt = x.toInt :=
  Lemmas.toInt_intoI64 h x

example : (Cell.intoI64 (200#8)).toInt = -56 ∧ (200#8).toInt = -56 := by decide

/-- `from_u8` is zero extension (`8 ≤ w`). -/
theorem toNat_fromU8 (h : 8 ≤ w) (b : BitVec 8) : (Cell.fromU8 b : BitVec w).toNat = b.toNat :=
  Lemmas.toNat_fromU8 h b

example : (Cell.fromU8 (200#8) : BitVec 16).toNat = 200 := by decide

/-- `into_u8 (from_u8 b) = b` (`8 ≤ w`). -/
theorem intoU8_fromU8 (h : 8 ≤ w) (b : BitVec 8) : Cell.intoU8 (Cell.fromU8 b : BitVec w) = b :=
  Lemmas.intoU8_fromU8 h b

example : Cell.intoU8 (Cell.fromU8 (200#8) : BitVec 32) = 200#8 := by decide

/-- `from_i16` preserves the signed value for `16 ≤ w ≤ 64`. -/
theorem toInt_fromI16 (h16 : 16 ≤ w) (h : w ≤ 64) (v : BitVec 16) :
    (Cell.fromI16 v : BitVec w).toInt = v.toInt :=
  Lemmas.toInt_fromI16 h16 h v

example : (Cell.fromI16 (0xFF80#16) : BitVec 32) = 0xFFFFFF80#32 := by decide
example : (Cell.fromI16 (0xFF80#16) : BitVec 32).toInt = -128 := by decide

/-- `from_i16` is truncation for `w ≤ 16`, in particular for 8-bit cells. -/
theorem fromI16_eq_setWidth (h : w ≤ 16) (v : BitVec 16) :
    (Cell.fromI16 v : BitVec w) = v.setWidth w :=
  Lemmas.fromI16_eq_setWidth h v

theorem fromI16_u8 (v : BitVec 16) : (Cell.fromI16 v : BitVec 8) = v.setWidth 8 :=
  Lemmas.fromI16_8 v

example : (Cell.fromI16 (0x1234#16) : BitVec 8) = 0x34#8 := by decide

/-- `try_into_i16` succeeds exactly when the signed value fits in an `i16`, returning it. -/
theorem tryIntoI16_some_iff (h : w ≤ 64) (x : BitVec w) (v : BitVec 16) :
    Cell.tryIntoI16 x = some v ↔ v.toInt = x.toInt :=
  Lemmas.tryIntoI16_some_iff h x v

example : Cell.tryIntoI16 (0xFFFFFFFF#32) = some (0xFFFF#16) ∧
    (0xFFFF#16).toInt = (0xFFFFFFFF#32).toInt := by decide
example : Cell.tryIntoI16 (200#8) = some (0xFFC8#16) := by decide

theorem tryIntoI16_none_iff (h : w ≤ 64) (x : BitVec w) :
    Cell.tryIntoI16 x = none ↔ x.toInt < -32768 ∨ 32767 < x.toInt :=
  Lemmas.tryIntoI16_none_iff h x

example : Cell.tryIntoI16 (40000#32) = none ∧ 32767 < (40000#32).toInt := by decide
example : Cell.tryIntoI16 (0x8000#16) = some (0x8000#16) := by decide
example : Cell.tryIntoI16 (0xFFFF7FFF#32) = none ∧ (0xFFFF7FFF#32).toInt < -32768 := by decide

/-- Round trip: a successful `try_into_i16` is undone by `from_i16`. -/
theorem fromI16_of_tryIntoI16 (h : w ≤ 64) (x : BitVec w) (v : BitVec 16) :
    Cell.tryIntoI16 x = some v → (Cell.fromI16 v : BitVec w) = x :=
  Lemmas.fromI16_of_tryIntoI16 h x v

example : (Cell.fromI16 (0xFFC8#16) : BitVec 8) = 200#8 := by decide

/-- Round trip the other way (`16 ≤ w ≤ 64`). -/
theorem tryIntoI16_fromI16 (h16 : 16 ≤ w) (h : w ≤ 64) (v : BitVec 16) :
    Cell.tryIntoI16 (Cell.fromI16 v : BitVec w) = some v :=
  Lemmas.tryIntoI16_fromI16 h16 h v

example : Cell.tryIntoI16 (Cell.fromI16 (0x8000#16) : BitVec 64) = some (0x8000#16) := by decide

/-! ### The four Rust cell types -/

theorem pow_spec_u8 (b e : BitVec 8) : Cell.wrappingPow b e = b ^ e.toNat := pow_spec (by decide) b e
theorem pow_spec_u16 (b e : BitVec 16) : Cell.wrappingPow b e = b ^ e.toNat := pow_spec (by decide) b e
theorem pow_spec_u32 (b e : BitVec 32) : Cell.wrappingPow b e = b ^ e.toNat := pow_spec (by decide) b e
theorem pow_spec_u64 (b e : BitVec 64) : Cell.wrappingPow b e = b ^ e.toNat := pow_spec (by decide) b e

theorem inv_mul_u8 (x y : BitVec 8) : Cell.wrappingInv x = some y → x * y = 1#8 := inv_mul (by decide) x y
theorem inv_mul_u16 (x y : BitVec 16) : Cell.wrappingInv x = some y → x * y = 1#16 := inv_mul (by decide) x y
theorem inv_mul_u32 (x y : BitVec 32) : Cell.wrappingInv x = some y → x * y = 1#32 := inv_mul (by decide) x y
theorem inv_mul_u64 (x y : BitVec 64) : Cell.wrappingInv x = some y → x * y = 1#64 := inv_mul (by decide) x y

theorem div_some_iff_u8 (n d x : BitVec 8) :
    Cell.wrappingDiv n d = some x ↔ (x * d = n ∧ ∀ y, y * d = n → x ≤ y) := div_some_iff (by decide) n d x
theorem div_some_iff_u16 (n d x : BitVec 16) :
    Cell.wrappingDiv n d = some x ↔ (x * d = n ∧ ∀ y, y * d = n → x ≤ y) := div_some_iff (by decide) n d x
theorem div_some_iff_u32 (n d x : BitVec 32) :
    Cell.wrappingDiv n d = some x ↔ (x * d = n ∧ ∀ y, y * d = n → x ≤ y) := div_some_iff (by decide) n d x
theorem div_some_iff_u64 (n d x : BitVec 64) :
    Cell.wrappingDiv n d = some x ↔ (x * d = n ∧ ∀ y, y * d = n → x ≤ y) := div_some_iff (by decide) n d x

theorem div_none_iff_u8 (n d : BitVec 8) :
    Cell.wrappingDiv n d = none ↔ ¬ ∃ y, y * d = n := div_none_iff (by decide) n d
theorem div_none_iff_u16 (n d : BitVec 16) :
    Cell.wrappingDiv n d = none ↔ ¬ ∃ y, y * d = n := div_none_iff (by decide) n d
theorem div_none_iff_u32 (n d : BitVec 32) :
    Cell.wrappingDiv n d = none ↔ ¬ ∃ y, y * d = n := div_none_iff (by decide) n d
theorem div_none_iff_u64 (n d : BitVec 64) :
    Cell.wrappingDiv n d = none ↔ ¬ ∃ y, y * d = n := div_none_iff (by decide) n d

/-! ### Axioms -/

#print axioms pow_spec
#print axioms isOdd_iff
#print axioms inv_isSome_iff
#print axioms inv_mul
#print axioms inv_none_iff
#print axioms inv_eq_pow
#print axioms odd_pow_totient
#print axioms trailingZeros_zero
#print axioms trailingZeros_le
#print axioms trailingZeros_lt
#print axioms two_pow_dvd_iff_le_trailingZeros
#print axioms trailingZeros_spec
#print axioms div_some_iff
#print axioms div_none_iff
#print axioms div_isSome_iff
#print axioms fromU64_intoU64
#print axioms toNat_intoU64
#print axioms toInt_intoI64
#print axioms toNat_fromU8
#print axioms intoU8_fromU8
#print axioms toInt_fromI16
#print axioms fromI16_eq_setWidth
#print axioms fromI16_u8
#print axioms tryIntoI16_some_iff
#print axioms tryIntoI16_none_iff
#print axioms fromI16_of_tryIntoI16
#print axioms tryIntoI16_fromI16
#print axioms pow_spec_u8
#print axioms pow_spec_u16
#print axioms pow_spec_u32
#print axioms pow_spec_u64
#print axioms inv_mul_u8
#print axioms inv_mul_u16
#print axioms inv_mul_u32
#print axioms inv_mul_u64
#print axioms div_some_iff_u8
#print axioms div_some_iff_u16
#print axioms div_some_iff_u32
#print axioms div_some_iff_u64
#print axioms div_none_iff_u8
#print axioms div_none_iff_u16
#print axioms div_none_iff_u32
#print axioms div_none_iff_u64

end Hpbf.C14
