/-
Property C01, completion (levels 2 and 3 without test hypothesis).  STATUS: see the list below.

(A) PROVED (this file, every oracle, every environment): **the analysis a rebuild round RECORDS is sound, in the
    `AnalInL` sense of `Hpbf/Props/C01Rounds.lean` (`PrevAnalSound`), for the program it EMITS, on that program's own
    run from `State.init env`** — for the first round (`optimizeOnce_analIn_l1'`) and for every later round whose own
    input analysis is sound (`optimizeOnce_analIn_g'`), so the property iterates along rounds.  In particular the
    recorded `clobbered` ("written but constant" cells are exempt) is right for the emitted loop: proof by a pass over
    all constructs parallel to the footprint pass, with "mirror states" (`MirV`, Hpbf/Proofs/OptRbAnDefs.lean) for the
    code of nested blocks, which runs from loop heads that are not valid for the rebuild relation.
(B) The transfer of (A) across dead store elimination is FALSE for the optimizer as it stands: DEFECT F13 (found by
    this investigation; real miscompile at -O2 and -O3 reachable from Brainfuck source, witness
    /verif/work/optloop/f13.bf): DSE deletes the store that restores a constant-but-written cell (emitted undemanded by
    the explosion check of `perform_all`), the recorded claim becomes false for the DSE'd program, and the next round
    drops a store because of it.  The executable hypothesis of `C01Rounds.optimize_preserves_of_check'` is (correctly)
    false on that run.
    Kernel-checked witnesses below: `f13_miscompile'` (IR-level source), `f13_miscompile_bf'` (Brainfuck source),
    `f13b_miscompile'` (second path: the store IN FRONT of an at-least-once loop is deleted, so adding the exempted
    cells to the node's `reads` alone would not be a fix).
(C) PROVED for the FIXED optimizer (`Hpbf/OptFix.lean`: a round records as `clobbered` of a non-moving block ALL
    store/input targets of the emitted body, recursively; modelled as the post-pass `fixClob`; nothing else changes):
    **`optimizeF_preserves_all_levels'` and `optimizeF_onceOk_all_levels'`: every level, every oracle, every
    environment, NO hypothesis on the run.**  With the fix "a cell outside `clobbered` keeps its value at the heads"
    is a syntactic fact (`TgtOkL`), true for every state and stable under dead store elimination.  The fixed optimizer
    is right on the three witnesses (examples at the end).
-/
import Hpbf.Proofs.OptRbAnTop
import Hpbf.Proofs.OptRbFull
import Hpbf.Proofs.OptRbF13

namespace Hpbf
namespace OptProof
open Opt OptSem Ir

variable {w : Nat}

/-- (A), first round. -/
theorem optimizeOnce_analIn_l1' (hw : 0 < w) {b : Block w} (hcl : CanonL b.insts) {os os' : Orders}
    {b' : Block w} {anal' : OptAnalysis w}
    (hr : (optimizeOnce b (topAnalysis [] [])).run os = .ok ((b', anal'), os')) (env : Env) :
    AnalInL (fun σ => σ = State.init env) b'.insts anal'.subBlocks :=
  optimizeOnce_analIn_l1 hw hcl hr env

/-- (A), a round that uses a previous analysis which is itself sound for the round's input. -/
theorem optimizeOnce_analIn_g' (hw : 0 < w) {b : Block w} (hcl : CanonL b.insts) {prevAnal : OptAnalysis w}
    (hamo : prevAnal.loopAnal.atMostOnce = true) {env : Env} (hs : ShapeL b.insts prevAnal.subBlocks)
    (ha : AnalInL (fun σ => σ = State.init env) b.insts prevAnal.subBlocks)
    {os os' : Orders} {b' : Block w} {anal' : OptAnalysis w}
    (hr : (optimizeOnce b prevAnal).run os = .ok ((b', anal'), os')) :
    AnalInL (fun σ => σ = State.init env) b'.insts anal'.subBlocks :=
  optimizeOnce_analIn_g hw hcl hamo hs ha hr

/-! ### (B) defect F13, kernel-checked -/

/-- Level 2 changes the observable behaviour of an IR program (source `F13.f13Src`, input 3, 2). -/
theorem f13_miscompile' : ∃ (b b' : Block 8) (orders : Orders) (env : Env) (c c' : Cfg 8),
    Opt.optimize b 2 orders = .ok b' ∧ Ir.run b false 0 400 env = .done c ∧
    Ir.run b' false 0 400 env = .done c' ∧ c.st.trace ≠ c'.st.trace :=
  F13.f13_miscompile

/-- The same from Brainfuck source (`F13.f13Bf`, 481 characters). -/
theorem f13_miscompile_bf' : ∃ (b b' : Block 8) (c c' : Cfg 8),
    Ir.parse (w := 8) F13.f13Bf = .ok b ∧ Opt.optimize b 2 [] = .ok b' ∧
    Ir.run b false 0 600 F13.f13Env = .done c ∧ Ir.run b' false 0 600 F13.f13Env = .done c' ∧
    c.st.trace ≠ c'.st.trace :=
  F13.f13_miscompile_bf

/-- The second path (the deleted store is the one in front of the loop). -/
theorem f13b_miscompile' : ∃ (b' : Block 8) (c c' : Cfg 8),
    Opt.optimize F13.f13bSrc 2 [] = .ok b' ∧ Ir.run F13.f13bSrc false 0 400 F13.f13bEnv = .done c ∧
    Ir.run b' false 0 400 F13.f13bEnv = .done c' ∧ c.st.trace ≠ c'.st.trace :=
  F13.f13b_miscompile

/-- The executable hypothesis of `C01Rounds.optimize_preserves_of_check'` is false on the witness (and the analysis
round 1 records is sound for its own output, false after DSE: `F13.f13_check_before_dse`, `F13.f13_check_after_dse`). -/
theorem f13_check_false' : OptCheck.optimizeCheck 400 F13.f13Src 2 F13.f13Orders F13.f13Env = false :=
  F13.f13_check_false

/-! ### (C) the fixed optimizer, all levels, no hypothesis -/

example (b : Block w) (anal : OptAnalysis w) :
    OptFix.fixClob b anal = anal.setSubBlocks (OptFix.fixSubs b.insts anal.subBlocks) := rfl

example (b : Block w) (prev : OptAnalysis w) :
    OptFix.optimizeOnceF b prev = (do
      let (prog, anal) ← optimizeOnce b prev
      pure (prog, OptFix.fixClob prog anal)) := rfl

/-- Dead store elimination does not see the fix. -/
theorem dse_fixClob' (b b0 : Block w) (a : OptAnalysis w) :
    deadStoreElimination b (OptFix.fixClob b0 a) = deadStoreElimination b a :=
  dse_fixClob b b0 a

/-- The fixed analysis of a round's output is sound for EVERY guard, also after dead store elimination. -/
theorem fixed_analysis_sound {b : Block w} {prevAnal : OptAnalysis w} {os os' : Orders} {b1 b2 : Block w}
    {anal1 : OptAnalysis w} (hr : (optimizeOnce b prevAnal).run os = .ok ((b1, anal1), os'))
    (hcl : CanonL b.insts) (hd : deadStoreElimination b1 (OptFix.fixClob b1 anal1) = .ok b2)
    (G : State w → Prop) : AnalInL G b2.insts (OptFix.fixClob b1 anal1).subBlocks :=
  analInL_of_tgtOk _ _ G (tgtOkL_dse (optimizeOnce_shape hr hcl) (optimizeOnce_canonL hr hcl) hd).1

theorem optimizeF_preserves_all_levels' (hw : 0 < w) {b b' : Block w} (hcl : CanonL b.insts) {level : Nat}
    {orders : Orders} (h : OptFix.optimizeF b level orders = .ok b') (env : Env) : BehEq b b' env :=
  optimizeF_preserves_all_levels hw hcl h env

theorem optimizeF_onceOk_all_levels' (hw : 0 < w) {b b' : Block w} (hcl : CanonL b.insts) {level : Nat}
    (hl : level ≠ 0) {orders : Orders} (h : OptFix.optimizeF b level orders = .ok b') (env : Env) :
    C02Emit.OnceOk b' env :=
  optimizeF_onceOk_all_levels hw hcl hl h env

/-- The fixed optimizer on the witnesses: same trace as the source (also a non-vacuity check of `optimizeF`). -/
example : (match OptFix.optimizeF F13.f13Src 2 [] with
    | .ok b' => F13.doneTrace (Ir.run b' false 0 400 F13.f13Env) == some F13.srcTrace
    | .error _ => false) = true := by decide +kernel

example : (match OptFix.optimizeF F13.f13Src 3 [] with
    | .ok b' => F13.doneTrace (Ir.run b' false 0 400 F13.f13Env) == some F13.srcTrace
    | .error _ => false) = true := by decide +kernel

example : (match OptFix.optimizeF F13.f13bSrc 2 [] with
    | .ok b' => F13.doneTrace (Ir.run b' false 0 400 F13.f13bEnv) == some F13.bSrcTrace
    | .error _ => false) = true := by decide +kernel

end OptProof
end Hpbf

#print axioms Hpbf.OptProof.optimizeOnce_analIn_l1'
#print axioms Hpbf.OptProof.optimizeOnce_analIn_g'
#print axioms Hpbf.OptProof.f13_miscompile'
#print axioms Hpbf.OptProof.f13_miscompile_bf'
#print axioms Hpbf.OptProof.f13b_miscompile'
#print axioms Hpbf.OptProof.f13_check_false'
#print axioms Hpbf.OptProof.fixed_analysis_sound
#print axioms Hpbf.OptProof.optimizeF_preserves_all_levels'
#print axioms Hpbf.OptProof.optimizeF_onceOk_all_levels'
