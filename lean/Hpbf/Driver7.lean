/-
Line-protocol handler that runs the program-level machine `X86Prog` on the output of the code generator:

`x86prog <w> <lim> <budget> <fuel> <in> <out> <win> <bytecode…>` (the argument format of `jitrun`).
The bytecode is compiled with `JitGen.compileX86` (`safe = true`, as `execute`/`execute_limited` of the
baseline JIT do; `limited = <lim>`), the machine starts in `X86Prog.initState` (what `enter_jit_code`
sets up: `make_accessible(min, max + 1)` on a fresh `Memory`, `rdi` = context, `rsi` = tape pointer) and
runs for at most `32 * fuel + 64` x86 instructions. Reply, in the format of `jitrun`:
* `ok <trace> <window|-> b<budget>` – the function returned; unlimited mode ignores the result
  (`execute` maps it to `Ok(())`), limited mode needs `al ≠ 0`;
* `interrupted <trace> <window|-> b<budget>` – limited mode and `al = 0`;
* `fuel <trace>` – still running;
* `nocode` – `compileX86 = none` (the Rust panics);
* `fault <kind> <pc>` – the machine left the modelled subset;
* suffix ` OOB` – a tape access outside the allocation happened (the reply is then not a prediction);
* suffix ` CALLEE` – a callee-saved register or the stack pointer was not restored at `ret`.
`<window>` is what the harness prints: `Memory::read(o)` for `o = -4..4`, i.e. relative to
`memory.offset` (NOT the register tape pointer), 0 outside the allocation. `b<budget>` is `[rbx+24]`.
Every other request goes to `Driver6.handle`.
-/
import Hpbf.Driver6
import Hpbf.X86Prog

namespace Hpbf
namespace Driver7

open Asm X86Prog

def aE : BitVec 64 := 0x7f0000001000
def aI : BitVec 64 := 0x7f0000002000
def aO : BitVec 64 := 0x7f0000003000
def cxtAddr : BitVec 64 := 0x7ffd00001000
def buf0 : BitVec 64 := 0x560000000000
def rsp0 : BitVec 64 := 0x7ffd00000ff8
def retAddr : BitVec 64 := 0x555500001234

/-- Unspecified values: a recognisable pattern per register. -/
def junk (r : Reg) : BitVec 64 := 0xBAD0BAD0BAD00000 + BitVec.ofNat 64 r.code

/-- Reallocation moves the buffer (by a multiple of 16). -/
def newBuf (b : BitVec 64) : BitVec 64 := b + 0x10000000

def cfgOf (code : List X86) : Cfg :=
  let tab := fetchTable code
  { fetch := fetchFast tab, aE := aE, aI := aI, aO := aO, cxtAddr := cxtAddr, junk := junk, newBuf := newBuf }

/-- `Memory::read(o)` for `o = -4..4`. -/
def window {w : Nat} (s : PState w) : String :=
  ",".intercalate ((List.range 9).map (fun (i : Nat) =>
    let q : Int := (s.off.toNat : Int) + ((i : Int) - 4)
    let v : BitVec w := if 0 ≤ q ∧ q < (s.size.toNat : Int) then s.tape.get (s.base + q) else 0
    toString v.toNat))

def faultName : Fault → String
  | .noInstr => "noInstr" | .unfit => "unfit" | .unsupported => "unsupported" | .flag => "flag"
  | .stack => "stack" | .misaligned => "misaligned" | .badCall => "badCall" | .badJump => "badJump"
  | .cxt => "cxt" | .unaligned => "unaligned"

/-- The callee-saved registers and the stack pointer are what they were at entry. -/
def calleeOk {w : Nat} (s0 s : PState w) : Bool :=
  s.regs.rbx == s0.regs.rbx && s.regs.rbp == s0.regs.rbp && s.regs.r12 == s0.regs.r12 &&
  s.regs.r13 == s0.regs.r13 && s.regs.r14 == s0.regs.r14 && s.regs.r15 == s0.regs.r15 &&
  s.regs.rsp == s0.regs.rsp + 8

def x86prog (w : Nat) (lim : Bool) (budget fuel : Nat) (env : Env) (win : Bool) (p : Bc.Program w) : String :=
  match JitGen.compileX86 w p lim true aE.toNat aI.toNat aO.toNat with
  | none => "nocode"
  | some code =>
    let cfg := cfgOf code
    let s0 : PState w := initState cfg buf0 rsp0 retAddr p.minAcc p.maxAcc budget env
    match run cfg (32 * fuel + 64) s0 with
    | .ret s =>
      let ok := !lim || (s.regs.rax.setWidth 8 != 0)
      (if ok then "ok " else "interrupted ") ++ Driver.encodeTrace s.trace ++ " " ++
        (if win then window s else "-") ++ " b" ++ toString s.budget.toNat ++
        (if s.oob then " OOB" else "") ++ (if calleeOk s0 s then "" else " CALLEE")
    | .fault f s => "fault " ++ faultName f ++ " " ++ toString s.pc
    | .fuel s => "fuel " ++ Driver.encodeTrace s.trace

def handle (line : String) : String :=
  let toks := (line.splitOn " ").filter (· ≠ "")
  match toks with
  | "x86prog" :: ws :: lim :: bud :: fs :: sin :: sout :: win :: bc =>
    (do
      let w ← ws.toNat?; let l ← Driver.boolOf lim; let b ← bud.toNat?; let fuel ← fs.toNat?
      let env ← Driver.decodeEnv sin sout
      let wn ← Driver.boolOf win
      let p ← Driver3.decodeBc w bc
      some (x86prog w l b fuel env wn p)).getD "bad-request"
  | "x86prog" :: _ => "bad-request"
  | _ => Driver6.handle line

end Driver7
end Hpbf
