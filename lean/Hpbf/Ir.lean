/-
Model of the IR (`src/ir.rs`: `Block`, `Instr`, `Program::parse`) and of the IR interpreter
(`src/exec/irint.rs`: `execute_block`).
-/
import Hpbf.Bf
import Hpbf.Expr

namespace Hpbf
namespace Ir

/-- `ir::Instr` with the nested `Block { shift, insts }` flattened into the constructor. -/
inductive Instr (w : Nat) where
  | output (src : Int)
  | input (dst : Int)
  | calc (calcs : List (Int × Expr w))
  | loop (cond : Int) (shift : Int) (body : List (Instr w)) (once : Bool)
  | ifnz (cond : Int) (shift : Int) (body : List (Instr w))
  deriving Repr, Inhabited

structure Block (w : Nat) where
  shift : Int
  insts : List (Instr w)
  deriving Repr, Inhabited

variable {w : Nat}

/-- `Instr::add(var, val)`. -/
def Instr.add (v : Int) (c : BitVec w) : Instr w :=
  .calc [(v, [{ coef := c, vars := [] }, { coef := 1#w, vars := [v] }])]
/-- `Instr::load(var, val)`. -/
def Instr.load (v : Int) (c : BitVec w) : Instr w := .calc [(v, Expr.val c)]

/-! ### `Program::parse` -/

inductive ErrKind where
  | loopNotClosed | loopNotOpened
  deriving Repr, DecidableEq, Inhabited

structure ParseErr where
  kind : ErrKind
  position : Nat
  deriving Repr, DecidableEq, Inhabited

/-- One entry of the parser's `stack`: `(shift, moved, insts, buff)`; `insts` is kept reversed. -/
structure Frame (w : Nat) where
  shift : Int
  moved : Bool
  rinsts : List (Instr w)
  buff : List (Int × BitVec w)
  deriving Inhabited

/-- `buff.get(k)` on the association list. -/
def bget (b : List (Int × BitVec w)) (k : Int) : Option (BitVec w) :=
  match b with
  | [] => none
  | (k', v) :: rest => if k' = k then some v else bget rest k

/-- `buff.insert(k, v)`. -/
def bset (b : List (Int × BitVec w)) (k : Int) (v : BitVec w) : List (Int × BitVec w) :=
  match b with
  | [] => [(k, v)]
  | (k', v') :: rest => if k' = k then (k', v) :: rest else (k', v') :: bset rest k v

/-- Keys with values, sorted by key (`into_iter().collect(); sort()`). -/
def bsorted (b : List (Int × BitVec w)) : List (Int × BitVec w) :=
  Expr.stableSort (fun a c => decide (a.1 ≤ c.1)) b

/-- `let val = buff.entry(k).or_insert(0); if *val != 0 { insts.push(add(k, *val)); *val = 0 }`. -/
def flushOne (f : Frame w) (k : Int) : Frame w :=
  match bget f.buff k with
  | none => { f with buff := bset f.buff k 0#w }
  | some v =>
    if v != 0#w then { f with rinsts := Instr.add k v :: f.rinsts, buff := bset f.buff k 0#w } else f

/-- `*buff.entry(shift).or_insert(0) += d`. -/
def bump (f : Frame w) (d : BitVec w) : Frame w :=
  { f with buff := bset f.buff f.shift ((bget f.buff f.shift).getD 0#w + d) }

/-- Push `add(var, val)` for every non-zero entry, in key order, onto `rinsts`. -/
def pushAdds (rinsts : List (Instr w)) (vars : List (Int × BitVec w)) : List (Instr w) :=
  vars.foldl (fun acc kv => if kv.2 != 0#w then Instr.add kv.1 kv.2 :: acc else acc) rinsts

/-- Is `sub_insts` exactly `[ [shift] += odd constant ]`? -/
def isOddStep (subInsts : List (Instr w)) (shift : Int) : Bool :=
  match subInsts with
  | [.calc [(v, e)]] =>
    v == shift && (match Expr.constIncOf e shift with | some inc => Cell.isOdd inc | none => false)
  | _ => false

/-- The `']'` arm once the frame `sub` has been popped and `par` is the new top. -/
def closeLoop (sub par : Frame w) : Frame w :=
  let vars := bsorted sub.buff
  let subRinsts := pushAdds sub.rinsts vars
  let subInsts := subRinsts.reverse
  if !sub.moved && sub.shift == par.shift && isOddStep subInsts par.shift then
    { par with rinsts := Instr.load par.shift 0#w :: par.rinsts, buff := bset par.buff par.shift 0#w }
  else
    let par := vars.foldl (fun p kv => flushOne p kv.1) par
    let par :=
      if sub.moved || sub.shift != par.shift then
        { par with
          rinsts := pushAdds par.rinsts (bsorted par.buff)
          buff := par.buff.map (fun kv => (kv.1, 0#w))
          moved := true }
      else par
    let par := flushOne par par.shift
    { par with rinsts := .loop par.shift (sub.shift - par.shift) subInsts false :: par.rinsts }

structure PState (w : Nat) where
  top : Frame w
  rest : List (Frame w)
  positions : List Nat

/-- One character of `Program::parse` (`i` is the character index). -/
def parseStep (ps : PState w) (i : Nat) (k : Kind) : Except ParseErr (PState w) :=
  match k with
  | .right => .ok { ps with top := { ps.top with shift := ps.top.shift + 1 } }
  | .left => .ok { ps with top := { ps.top with shift := ps.top.shift - 1 } }
  | .inc => .ok { ps with top := bump ps.top 1#w }
  | .dec => .ok { ps with top := bump ps.top (-1#w) }
  | .out =>
    let f := flushOne ps.top ps.top.shift
    .ok { ps with top := { f with rinsts := .output f.shift :: f.rinsts } }
  | .inp =>
    let f := ps.top
    .ok { ps with top := { f with rinsts := .input f.shift :: f.rinsts, buff := bset f.buff f.shift 0#w } }
  | .open =>
    .ok { top := { shift := ps.top.shift, moved := false, rinsts := [], buff := [] }
          rest := ps.top :: ps.rest
          positions := i :: ps.positions }
  | .close =>
    match ps.positions, ps.rest with
    | [], _ => .error { kind := .loopNotOpened, position := i }
    | _ :: _, [] => .error { kind := .loopNotOpened, position := i }   -- unreachable: |rest| = |positions|
    | _ :: poss, par :: rest => .ok { top := closeLoop ps.top par, rest := rest, positions := poss }
  | .comment => .ok ps

def parseLoop : List Kind → Nat → PState w → Except ParseErr (PState w)
  | [], _, ps => .ok ps
  | k :: ks, i, ps =>
    match parseStep ps i k with
    | .error e => .error e
    | .ok ps' => parseLoop ks (i + 1) ps'

/-- `Program::parse` on the classified characters of the source. -/
def parse (src : List Kind) : Except ParseErr (Block w) :=
  match parseLoop src 0 { top := { shift := 0, moved := false, rinsts := [], buff := [] }, rest := [], positions := [] } with
  | .error e => .error e
  | .ok ps =>
    match ps.rest, ps.positions with
    | [], _ => .ok { shift := ps.top.shift, insts := (pushAdds ps.top.rinsts (bsorted ps.top.buff)).reverse }
    | _ :: _, p :: _ => .error { kind := .loopNotClosed, position := p }
    | _ :: _, [] => .error { kind := .loopNotClosed, position := 0 }   -- unreachable

/-! ### `execute_block` as a continuation machine -/

/-- What to do when the instruction list of a block body is exhausted. -/
inductive Cont (w : Nat) where
  | loopEnd (cond shift : Int) (body : List (Instr w)) (rest : List (Instr w))
  | ifEnd (shift : Int) (rest : List (Instr w))

structure Cfg (w : Nat) where
  cur : List (Instr w)
  conts : List (Cont w)
  budget : Nat
  st : State w

inductive StepRes (w : Nat) where
  | next (c : Cfg w)
  | halt (c : Cfg w)         -- `Some(true)`
  | stop (c : Cfg w)         -- `None` (I/O failure)
  | interrupted (c : Cfg w)  -- `Some(false)`

/-- `Instr::Calc`: all right-hand sides are evaluated before any write. -/
def doCalc (s : State w) (calcs : List (Int × Expr w)) : State w :=
  let vals := calcs.map (fun ve => (ve.1, Expr.evaluate ve.2 (fun off => s.rd off)))
  vals.foldl (fun s vv => s.wr vv.1 vv.2) s

/-- Shift of the block a continuation belongs to. -/
def Cont.shift : Cont w → Int
  | .loopEnd _ sh _ _ => sh
  | .ifEnd sh _ => sh

/-- When the budget runs out inside a nested block, `execute_block(..)?` yields `Some(false)` to the
enclosing loop, which still performs its own `mov(block.shift)` before it sees `budget == 0` and
returns `Some(false)` in turn: every enclosing block's shift is applied once while unwinding. -/
def unwind (st : State w) (ks : List (Cont w)) : State w :=
  ks.foldl (fun s k => s.mov k.shift) st

def step (limited : Bool) (c : Cfg w) : StepRes w :=
  match c.cur with
  | [] =>
    match c.conts with
    | [] => .halt c
    | .loopEnd cond shift body rest :: ks =>
      let st := c.st.mov shift
      if limited && c.budget == 0 then .interrupted { c with st := unwind st ks }
      else
        let budget := if limited then c.budget - 1 else c.budget
        if st.rd cond ≠ 0#w then
          .next { cur := body, conts := .loopEnd cond shift body rest :: ks, budget := budget, st := st }
        else .next { cur := rest, conts := ks, budget := budget, st := st }
    | .ifEnd shift rest :: ks =>
      let st := c.st.mov shift
      if limited && c.budget == 0 then .interrupted { c with st := unwind st ks }
      else
        let budget := if limited then c.budget - 1 else c.budget
        .next { cur := rest, conts := ks, budget := budget, st := st }
  | .output src :: rest =>
    match c.st.output src with
    | (true, s) => .next { c with cur := rest, st := s }
    | (false, s) => .stop { c with cur := rest, st := s }
  | .input dst :: rest =>
    match c.st.input dst with
    | (true, s) => .next { c with cur := rest, st := s }
    | (false, s) => .stop { c with cur := rest, st := s }
  | .calc calcs :: rest => .next { c with cur := rest, st := doCalc c.st calcs }
  | .loop cond shift body _ :: rest =>
    if c.st.rd cond ≠ 0#w then
      .next { c with cur := body, conts := .loopEnd cond shift body rest :: c.conts }
    else .next { c with cur := rest }
  | .ifnz cond shift body :: rest =>
    if c.st.rd cond ≠ 0#w then
      .next { c with cur := body, conts := .ifEnd shift rest :: c.conts }
    else .next { c with cur := rest }

inductive Outcome (w : Nat) where
  | done (c : Cfg w)
  | stopped (c : Cfg w)
  | interrupted (c : Cfg w)
  | outOfFuel (c : Cfg w)

def runCfg (limited : Bool) : Nat → Cfg w → Outcome w
  | 0, c => .outOfFuel c
  | fuel + 1, c =>
    match step limited c with
    | .next c' => runCfg limited fuel c'
    | .halt c' => .done c'
    | .stop c' => .stopped c'
    | .interrupted c' => .interrupted c'

def run (b : Block w) (limited : Bool) (budget fuel : Nat) (env : Env) : Outcome w :=
  runCfg limited fuel { cur := b.insts, conts := [], budget := budget, st := State.init env }

end Ir
end Hpbf
