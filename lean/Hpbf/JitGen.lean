/-
Model of the baseline JIT's code generation `src/exec/basejit/codegen.rs` + `mod.rs::compile_program`.
(Port in progress.)
-/
import Hpbf.Asm
import Hpbf.Bc

namespace Hpbf
namespace JitGen

end JitGen
end Hpbf
