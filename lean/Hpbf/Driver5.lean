/-
Line-protocol handler for JIT code generation: `jitgen <w> <limited 0/1> <safe 0/1> <bytecode...>` replies
with the machine code in hex (runtime-shim addresses as zero), or `panic` where the Rust hits `unimplemented!`.

The harness prints the Rust machine code after `mask_mc`, which zeroes the 8 immediate bytes of every
`48 b8 <imm64> ff d0` (`mov rax, imm64; call rax`). In the harness process the shim addresses do not fit
32 bits, so `emit_mov_r64_i64` takes its 10-byte form there; `JitGen.compile` with address 0 would take
the 6-byte `c7 c0 <imm32>` form. The handler therefore compiles with a shim address beyond 32 bits
(`shimAddr`) and applies the same `maskMc` as the harness.
-/
import Hpbf.Driver4
import Hpbf.JitGen

namespace Hpbf
namespace Driver5

/-- Address passed for the three runtime shims (any value above `u32::MAX` gives the same reply). -/
def shimAddr : Nat := 0x555555554000

/-- Port of the harness's `mask_mc`. -/
def maskMc (mc : Array UInt8) : Array UInt8 := Id.run do
  let mut mc := mc
  let mut i := 0
  for _ in [0:mc.size] do
    if i + 12 ≤ mc.size then
      if mc[i]! == 0x48 && mc[i + 1]! == 0xb8 && mc[i + 10]! == 0xff && mc[i + 11]! == 0xd0 then
        for j in [i + 2:i + 10] do
          mc := mc.set! j 0
        i := i + 12
      else
        i := i + 1
  return mc

def hexOf (bs : Array UInt8) : String :=
  if bs.isEmpty then "-" else String.join (bs.toList.map Driver.hexByte)

def jitgen (ws ls ss : String) (bc : List String) : Option String := do
  let w ← ws.toNat?
  if !(w == 8 || w == 16 || w == 32 || w == 64) then none
  if bc.isEmpty then none
  let limited := ls == "1"
  let safe := ss == "1"
  let p ← Driver3.decodeBc w bc
  if p.live.any (· ≥ 65536) then none     -- `live` is a `u16` in the Rust decoder
  match JitGen.compile w p limited safe shimAddr shimAddr shimAddr with
  | some mc => some (hexOf (maskMc mc.toArray))
  | none => some "panic"

def handle (line : String) : String :=
  let toks := (line.splitOn " ").filter (· ≠ "")
  match toks with
  | "jitgen" :: ws :: ls :: ss :: bc => (jitgen ws ls ss bc).getD "bad-request"
  | "jitgen" :: _ => "bad-request"
  | _ => Driver4.handle line

end Driver5
end Hpbf
