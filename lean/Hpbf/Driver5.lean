/-
Line-protocol handler for JIT code generation: `jitgen <w> <limited 0/1> <safe 0/1> <bytecode...>` replies
with the machine code in hex (runtime-shim addresses as zero), or `panic` where the Rust hits `unimplemented!`.
-/
import Hpbf.Driver4
import Hpbf.JitGen

namespace Hpbf
namespace Driver5

def handle (line : String) : String :=
  Driver4.handle line

end Driver5
end Hpbf
