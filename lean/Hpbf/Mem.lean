/-
Model of `runtime::Memory<C>` (`src/runtime.rs`): buffer, `size`, `offset` with every wrap the Rust
has (`wrapping_add_signed`, `as isize`, unsigned compare, signed division in `set_current_ptr`,
unsigned division in `check_ptr`). Pointers are modelled *relative to the current buffer* as the
byte distance `ptr - buffer` (a 64-bit value), which is all the Rust arithmetic depends on.
The allocator is an oracle that always succeeds here (failure is modelled in `Alloc.lean`).
-/
import Hpbf.Cell

namespace Hpbf

def two64 : Nat := 18446744073709551616
def two63 : Nat := 9223372036854775808

/-- `x as usize` for a mathematical integer (two's complement wrap). -/
def wrapU64 (x : Int) : Nat := (x % (two64 : Int)).toNat
/-- `x as isize` for a `usize` value. -/
def asI64 (x : Nat) : Int := if x < two63 then (x : Int) else (x : Int) - (two64 : Int)

structure Mem (w : Nat) where
  buf : Array (BitVec w)
  size : Nat            -- invariant: `size = buf.size`
  offset : Nat          -- a `usize`: `< 2^64`

namespace Mem
variable {w : Nat}

/-- `Memory::new`. -/
def new : Mem w := { buf := #[], size := 0, offset := 0 }

/-- `mem::size_of::<C>()`. -/
def cellBytes (w : Nat) : Nat := w / 8

/-- `Memory::mov`: `offset.wrapping_add_signed(d)`. -/
def mov (m : Mem w) (d : Int) : Mem w := { m with offset := wrapU64 (m.offset + d) }

/-- `Memory::read`. Never allocates. -/
def read (m : Mem w) (off : Int) : BitVec w :=
  let p := wrapU64 (m.offset + off)
  if p < m.size then m.buf[p]?.getD 0#w else 0#w

/-- `Memory::check`. -/
def check (m : Mem w) (off : Int) : Bool := wrapU64 (m.offset + off) < m.size

/-- Sizes computed by `make_accessible`: `(needed_below, needed_above, new_size, added_below)`. -/
def growth (m : Mem w) (start stop : Int) : Nat × Nat × Nat × Nat :=
  let startPtr := asI64 (wrapU64 (asI64 m.offset + start))
  let endPtr := asI64 (wrapU64 (asI64 m.offset + stop))
  let neededBelow := if startPtr < 0 then startPtr.natAbs else 0
  let neededAbove := if endPtr > asI64 m.size then wrapU64 (endPtr - asI64 m.size) else 0
  let newSize := m.size + max (m.size / 2) (neededBelow + neededAbove)
  let addedBelow :=
    if neededBelow = 0 then 0
    else if neededAbove = 0 then newSize - m.size
    else min (max neededBelow ((newSize - m.size) / 2)) (newSize - m.size - neededAbove)
  (neededBelow, neededAbove, newSize, addedBelow)

/-- `Memory::make_accessible(start, end)`. -/
def makeAccessible (m : Mem w) (start stop : Int) : Mem w :=
  let (nb, na, newSize, addedBelow) := m.growth start stop
  if nb = 0 ∧ na = 0 then m
  else
    { buf := Array.replicate addedBelow 0#w ++ m.buf ++ Array.replicate (newSize - m.size - addedBelow) 0#w
      size := newSize
      offset := wrapU64 (m.offset + addedBelow) }

/-- `Memory::write` (including `write_out_of_bounds`). -/
def write (m : Mem w) (off : Int) (v : BitVec w) : Mem w :=
  let p := wrapU64 (m.offset + off)
  if p < m.size then { m with buf := m.buf.setIfInBounds p v }
  else
    let m' := m.makeAccessible off (off + 1)
    let p' := wrapU64 (m'.offset + off)
    { m' with buf := m'.buf.setIfInBounds p' v }

/-- `Memory::current_ptr`, as byte distance from `buffer`: `buffer.wrapping_add(offset)`. -/
def currentPtr (m : Mem w) : Nat := (m.offset * cellBytes w) % two64

/-- `Memory::set_current_ptr(ptr)` with `ptr` given as byte distance `rel` from `buffer`:
`((ptr as isize).wrapping_sub(buffer as isize) / size_of::<C>() as isize) as usize`
(Rust's `/` on `isize` truncates toward zero = `Int.tdiv`). -/
def setCurrentPtr (m : Mem w) (rel : Nat) : Mem w :=
  { m with offset := wrapU64 (Int.tdiv (asI64 rel) (cellBytes w : Int)) }

/-- `Memory::check_ptr(ptr)`: `((ptr as usize).wrapping_sub(buffer as usize) / size_of::<C>()) < size`. -/
def checkPtr (m : Mem w) (rel : Nat) : Bool := rel / cellBytes w < m.size

end Mem
end Hpbf
