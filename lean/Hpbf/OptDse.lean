/-
Model of the IR-level dead store elimination of the optimiser (`src/opt.rs`: `OptDseState::{read, write,
will_be_overwritten, eliminate_in_block}`, `Program::dead_store_elimination`), the pass that runs between
two rebuild rounds at optimisation levels 2 and 3.

The pass consumes, per block, five facts of the analysis left by the previous rebuild round (`DAnal`):
`at_most_once`, `at_least_once`, `has_shift`, `reads`, and the analyses of the nested blocks. They are
inputs here; under the `verif` feature the real (program, analysis, result) triples of every optimisation
are exported and the driver recomputes the result with `eliminate` (suite `optdse`), and the harness also
runs the pass on random IR with random analyses.

Sets (`HashSet<isize>`) are lists used through membership only.
-/
import Hpbf.Ir

namespace Hpbf
namespace OptDse

variable {w : Nat}

/-- The part of `OptAnalysis` the pass reads. -/
inductive DAnal where
  | mk (atMostOnce atLeastOnce hasShift : Bool) (reads : List Int) (subs : List DAnal)
  deriving Repr, Inhabited

def DAnal.atMostOnce : DAnal → Bool | .mk a _ _ _ _ => a
def DAnal.atLeastOnce : DAnal → Bool | .mk _ a _ _ _ => a
def DAnal.hasShift : DAnal → Bool | .mk _ _ a _ _ => a
def DAnal.reads : DAnal → List Int | .mk _ _ _ r _ => r
def DAnal.subs : DAnal → List DAnal | .mk _ _ _ _ s => s

/-- `OptDseState` without the parent pointer (the chain of enclosing states is passed separately,
innermost first). -/
structure DState where
  shift : Int
  hadShift : Bool
  anal : DAnal
  reads : List Int
  written : List Int
  deriving Inhabited

def DState.new (shift : Int) (anal : DAnal) : DState :=
  { shift := shift, hadShift := false, anal := anal, reads := [], written := [] }

def sins (s : List Int) (v : Int) : List Int := if s.contains v then s else v :: s
def srem (s : List Int) (v : Int) : List Int := s.filter (fun x => !(x == v))

/-- `OptDseState::read`. -/
def DState.read (s : DState) (v : Int) : DState :=
  { s with written := srem s.written v, reads := sins s.reads v }

/-- `OptDseState::write`. -/
def DState.write (s : DState) (v : Int) : DState :=
  { s with reads := srem s.reads v, written := sins s.written v }

/-- `OptDseState::will_be_overwritten` for the state `s` whose enclosing states are `parents`
(innermost first; `[]` = the program's top-level block: "nothing runs after the end of the program"). -/
def willBeOverwritten (s : DState) (parents : List DState) (v : Int) : Bool :=
  if s.written.contains v then true
  else if s.reads.contains v || s.hadShift then false
  else match parents with
    | [] => true
    | p :: rest =>
      if s.anal.atMostOnce || (!s.anal.hasShift && !s.anal.reads.contains v) then
        willBeOverwritten p rest (v - s.shift)
      else false

/-- The `for (var, _) in calcs.iter()` loop of the `Calc` arm: which variables are removed, and the
state after the `write`s. -/
def calcScan (parents : List DState) : List (Int × Expr w) → DState → List Int → DState × List Int
  | [], s, rem => (s, rem)
  | (v, _) :: rest, s, rem =>
    if willBeOverwritten s parents v then calcScan parents rest s (sins rem v)
    else calcScan parents rest (s.write v) rem

def readAll (s : DState) (vs : List Int) : DState := vs.foldl DState.read s

def writeAll (s : DState) (vs : List Int) : DState := vs.foldl DState.write s

/-- What the parent state does after a nested block has been processed. -/
def absorbSub (s : DState) (sub : DState) (subAnal : DAnal) (cond : Int) : DState :=
  let s := if subAnal.hasShift then { s with hadShift := true, written := [], reads := [] } else s
  let s := if subAnal.atLeastOnce then writeAll s sub.written else s
  let s := readAll s sub.reads
  s.read cond

mutual
/-- One iteration of the reverse loop of `eliminate_in_block`. `idx` is `block_idx`; `none` where the Rust
panics (fewer nested analyses than nested blocks). -/
def elimInstr (parents : List DState) : Ir.Instr w → DState → Nat → Option (Ir.Instr w × DState × Nat)
  | .output src, s, idx => some (.output src, s.read src, idx)
  | .input dst, s, idx => some (.input dst, s.write dst, idx)
  | .calc calcs, s, idx =>
    let (s, rem) := calcScan parents calcs s []
    let calcs' := calcs.filter (fun c => !rem.contains c.1)
    let s := calcs'.foldl (fun s c => readAll s (Expr.variables c.2)) s
    some (.calc calcs', s, idx)
  | .loop cond shift body once, s, idx =>
    match idx with
    | 0 => none
    | idx + 1 =>
      let s := s.read cond
      match s.anal.subs[idx]? with
      | none => none
      | some subAnal =>
        match elimInsts (s :: parents) body (DState.new shift subAnal) subAnal.subs.length with
        | none => none
        | some (body', sub, _) => some (.loop cond shift body' once, absorbSub s sub subAnal cond, idx)
  | .ifnz cond shift body, s, idx =>
    match idx with
    | 0 => none
    | idx + 1 =>
      let s := s.read cond
      match s.anal.subs[idx]? with
      | none => none
      | some subAnal =>
        match elimInsts (s :: parents) body (DState.new shift subAnal) subAnal.subs.length with
        | none => none
        | some (body', sub, _) => some (.ifnz cond shift body', absorbSub s sub subAnal cond, idx)
/-- `for instr in block.insts.iter_mut().rev()`: the LAST instruction is processed first. -/
def elimInsts (parents : List DState) : List (Ir.Instr w) → DState → Nat → Option (List (Ir.Instr w) × DState × Nat)
  | [], s, idx => some ([], s, idx)
  | i :: rest, s, idx =>
    match elimInsts parents rest s idx with
    | none => none
    | some (rest', s, idx) =>
      match elimInstr parents i s idx with
      | none => none
      | some (i', s, idx) => some (i' :: rest', s, idx)
end

/-- `Program::dead_store_elimination`. -/
def eliminate (b : Ir.Block w) (anal : DAnal) : Option (Ir.Block w) :=
  match elimInsts [] b.insts (DState.new 0 anal) anal.subs.length with
  | none => none
  | some (insts, _, _) => some { b with insts := insts }

end OptDse
end Hpbf
