/-
Driver requests for the optimiser's IR-level dead store elimination (`Hpbf/OptDse.lean`).

  optdse <w> <anal> <ir block text…>   →   the IR after `OptDse.eliminate`, or `panic`

`<anal>` is one token: `A<at_most_once><at_least_once><has_shift>(r1,r2,…){<sub analyses>}` with bits 0/1.
-/
import Hpbf.Driver6
import Hpbf.OptDse

namespace Hpbf
namespace Driver8

open Driver3 OptDse

partial def pReads : P (List Int) := do
  match (← peek) with
  | some ')' => return []
  | some ',' => do let _ ← next; pReads
  | _ => do let v ← pInt; let r ← pReads; return v :: r

def pBit : P Bool := do
  let c ← next
  if c = '1' then return true else if c = '0' then return false else failure

mutual
partial def pAnal : P DAnal := do
  expect 'A'
  let a ← pBit; let b ← pBit; let c ← pBit
  expect '('
  let rs ← pReads
  expect ')'
  expect '{'
  let subs ← pAnals
  expect '}'
  return .mk a b c rs subs
partial def pAnals : P (List DAnal) := do
  match (← peek) with
  | some 'A' => do let x ← pAnal; let r ← pAnals; return x :: r
  | _ => return []
end

def decodeAnal (s : String) : Option DAnal :=
  match pAnal.run s.toList with
  | some (a, []) => some a
  | _ => none

def handle (line : String) : String :=
  match line.splitOn " " with
  | "optdse" :: ws :: an :: rest =>
    (do
      let w ← ws.toNat?
      let a ← decodeAnal an
      let b ← decodeBlock w (" ".intercalate rest)
      some (match OptDse.eliminate b a with
        | some b' => Driver.encodeBlock b'
        | none => "panic")).getD "bad-request"
  | _ => Driver6.handle line

end Driver8
end Hpbf
