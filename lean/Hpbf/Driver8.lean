/-
Driver requests for the optimiser's IR-level dead store elimination (`Hpbf/OptDse.lean`).

  optdse <w> <anal> <ir block text…>   →   the IR after `OptDse.eliminate`, or `panic`

`<anal>` is one token: `A<at_most_once><at_least_once><has_shift>(r1,r2,…){<sub analyses>}` with bits 0/1.
-/
import Hpbf.Driver7
import Hpbf.OptDse
import Hpbf.Proofs.C01DseCheck

namespace Hpbf
namespace Driver8

open Driver3 OptDse

partial def pReads : P (List Int) := do
  match (← peek) with
  | some ')' => return []
  | some ',' => do let _ ← next; pReads
  | _ => do let v ← pInt; let r ← pReads; return v :: r

def pBit : P Bool := do
  let c ← next
  if c = '1' then return true else if c = '0' then return false else failure

mutual
partial def pAnal : P DAnal := do
  expect 'A'
  let a ← pBit; let b ← pBit; let c ← pBit
  expect '('
  let rs ← pReads
  expect ')'
  expect '{'
  let subs ← pAnals
  expect '}'
  return .mk a b c rs subs
partial def pAnals : P (List DAnal) := do
  match (← peek) with
  | some 'A' => do let x ← pAnal; let r ← pAnals; return x :: r
  | _ => return []
end

def decodeAnal (s : String) : Option DAnal :=
  match pAnal.run s.toList with
  | some (a, []) => some a
  | _ => none

/-- Run the IR machine and test the hypothesis `OnceOk` of the bytecode-emission theorems on this run:
whenever a loop marked `once` is about to be entered, its condition cell is non-zero. Returns `false` at the
first violation. -/
def onceChk {w : Nat} : Nat → Ir.Cfg w → Bool
  | 0, _ => true
  | fuel + 1, c =>
    let okHere := match c.cur with
      | .loop cond _ _ true :: _ => c.st.rd cond != 0#w
      | _ => true
    if !okHere then false
    else match Ir.step false c with
      | .next c' => onceChk fuel c'
      | _ => true

/-- `C01Dse.chkReads` without the requirement that the run ends within `N` steps (a bounded test for
non-terminating runs: exposure of a cell outside `reads` is looked for in the next `N` steps only). -/
def chkReadsBounded {w : Nat} (anal : DAnal) (N : Nat) (c : Ir.Cfg w) : Bool :=
  match c.cur, c.conts with
  | [], .loopEnd cond shift _ _ :: _ =>
    match C01Dse.analOf anal c.conts, Ir.step false c with
    | some A0, .next c1 =>
      A0.hasShift || (c.st.mov shift).rd cond == 0#w ||
        ((C01Dse.trail false N c1).flatMap C01Dse.stepReads).all (fun a =>
          A0.reads.contains (a - c1.st.ptr) || C01Dse.unexposedN false c.conts.length a N c1)
    | _, _ => true
  | _, _ => true

def handle (line : String) : String :=
  match line.splitOn " " with
  | "oncechk" :: ws :: fs :: sin :: sout :: rest =>
    (do
      let w ← ws.toNat?; let fuel ← fs.toNat?; let env ← Driver.decodeEnv sin sout
      let b ← decodeBlock w (" ".intercalate rest)
      some (if onceChk fuel { cur := b.insts, conts := [], budget := 0, st := State.init env }
            then "onceok" else "once-violated")).getD "bad-request"
  | "optdse" :: ws :: an :: rest =>
    (do
      let w ← ws.toNat?
      let a ← decodeAnal an
      let b ← decodeBlock w (" ".intercalate rest)
      some (match OptDse.eliminate b a with
        | some b' => Driver.encodeBlock b'
        | none => "panic")).getD "bad-request"
  | "dsefacts" :: ws :: ns :: sin :: sout :: an :: rest =>
    -- the hypotheses of `C01Dse.eliminate_preserves` (NoDupTargets, AnalSound) tested on the run of this program:
    -- `facts-ok` = every fact holds at every configuration of the first N steps (and, if the run ends within N
    -- steps, `C01Dse.checkSound = true`, which PROVES AnalSound for this program and environment)
    (do
      let w ← ws.toNat?; let n ← ns.toNat?; let env ← Driver.decodeEnv sin sout
      let a ← decodeAnal an
      let b ← decodeBlock w (" ".intercalate rest)
      let c0 := C01Dse.initCfg b 0 env
      some (if !C01Dse.noDupL b.insts then "dup-targets"
            else if !C01Dse.shiftOkL a b.insts then "shift-fact-violated"
            else if C01Dse.endsWithin false n c0 then
              (if C01Dse.checkSound false 0 b a env n then "facts-ok" else "facts-violated")
            else if (C01Dse.trail false n c0).all (fun c => C01Dse.chkAtLeast a c && C01Dse.chkAtMost a c &&
                      chkReadsBounded a n c) then "facts-ok" else "facts-violated")).getD "bad-request"
  | _ => Driver7.handle line

end Driver8
end Hpbf
