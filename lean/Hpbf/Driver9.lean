/-
Driver request for the optimizer model (`Hpbf/Opt.lean`).

  optrun <w> <level> <source hex> <orders>   →   the IR after `Opt.optimize`, `panic` where the model hits a
                                                 ported panic site, `parse-error`, or a model diagnostic

`<orders>` = `var:n1,n2;var:n1;…` (`-` if none): the hash-set iteration orders used by the Rust run.
-/
import Hpbf.Driver8
import Hpbf.Opt

namespace Hpbf
namespace Driver9

def parseInts (s : String) : Option (List Int) :=
  if s.isEmpty then some [] else (s.splitOn ",").mapM String.toInt?

def parseOrders (s : String) : Option Opt.Orders :=
  if s == "-" then some []
  else (s.splitOn ";").mapM (fun item =>
    match item.splitOn ":" with
    | [k, ns] => (parseInts ns).map (fun l => (k, l))
    | _ => none)

def optRun (w level : Nat) (src : List Kind) (orders : Opt.Orders) : String :=
  match Ir.parse (w := w) src with
  | .error _ => "parse-error"
  | .ok b =>
    match Opt.optimize b level orders with
    | .ok b' => Driver.encodeBlock b'
    | .error e => if e.startsWith "panic:" then "panic" else e

def handle (line : String) : String :=
  match (line.splitOn " ").filter (· ≠ "") with
  | ["optrun", ws, ls, hex, ords] =>
    (do
      let w ← ws.toNat?
      let level ← ls.toNat?
      let bs ← Driver.decodeHex hex
      let ks ← Driver.kindsOfUtf8 bs
      let orders ← parseOrders ords
      some (optRun w level ks orders)).getD "bad-request"
  | _ => Driver8.handle line

end Driver9
end Hpbf
