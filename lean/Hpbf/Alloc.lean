/-
Allocation failure in tape growth (`Memory::make_accessible`, `BcInterpreter::build_context`).
`alloc_zeroed` is an oracle that may return null (`allocOk = false`). `fixed = true` is the current code
(`if new_buffer.is_null() { handle_alloc_error(layout) }`), `fixed = false` the original code, which went
on to copy the old tape to, and later write through, a null-derived pointer.
-/
import Hpbf.Mem

namespace Hpbf
namespace Alloc

inductive Outcome (w : Nat) where
  | ok (m : Mem w)          -- execution continues with this memory
  | aborted                 -- `handle_alloc_error`: the process aborts, nothing further is accessed
  | ub                      -- an access through a null or dangling pointer happened

variable {w : Nat}

/-- `Memory::make_accessible` with a fallible allocator. -/
def makeAccessible (fixed allocOk : Bool) (m : Mem w) (a b : Int) : Outcome w :=
  let g := m.growth a b
  if g.1 = 0 ∧ g.2.1 = 0 then .ok m              -- no resize needed: the allocator is not called
  else if allocOk then .ok (m.makeAccessible a b)
  else if fixed then .aborted
  else if m.size ≠ 0 then .ub                     -- copy_to_nonoverlapping(null + added_below, size)
  else
    -- original code, first allocation: `buffer = null`, `size = new_size`: every later access that
    -- passes the bounds check dereferences null
    .ok { buf := #[], size := g.2.2.1, offset := wrapU64 (m.offset + g.2.2.2) }

/-- `Memory::write` with a fallible allocator. -/
def write (fixed allocOk : Bool) (m : Mem w) (off : Int) (v : BitVec w) : Outcome w :=
  let p := wrapU64 (m.offset + off)
  if p < m.size then
    if p < m.buf.size then .ok { m with buf := m.buf.setIfInBounds p v } else .ub   -- in "bounds" of a null buffer
  else
    match makeAccessible fixed allocOk m off (off + 1) with
    | .ok m' =>
      let p' := wrapU64 (m'.offset + off)
      if p' < m'.buf.size then .ok { m' with buf := m'.buf.setIfInBounds p' v } else .ub
    | r => r

end Alloc
end Hpbf
