/-
Model of `src/exec/inplace.rs` (`InplaceInterpreter::execute_in`): the interpreter working directly
on the source bytes with a program counter and a stack of loop starts. Mirrors the Rust loop
including the forward scan with a nesting counter, `pc += 1` past the end of the text, the budget
test at `]` *before* the pop, and `LoopNotOpened(pc-1)` on an empty stack.
-/
import Hpbf.Bf

namespace Hpbf
namespace Inplace

variable {w : Nat}

/-- The inner `while pc < len` of the `[` case: returns the index at which the scan stops (the
matching `]`, or `code.size`). `fuel` bounds the iterations (`code.size - pc` suffices). -/
def scan (code : Array Kind) : Nat → Nat → Nat → Nat
  | 0, pc, _ => pc
  | fuel + 1, pc, cnt =>
    match code[pc]? with
    | none => pc
    | some .close => if cnt = 0 then pc else scan code fuel (pc + 1) (cnt - 1)
    | some .open => scan code fuel (pc + 1) (cnt + 1)
    | some _ => scan code fuel (pc + 1) cnt

structure Cfg (w : Nat) where
  pc : Nat
  stack : List Nat
  budget : Nat
  st : State w

inductive StepRes (w : Nat) where
  | next (c : Cfg w)
  | finished (c : Cfg w)          -- `Ok(true)` at the end of the text
  | stopped (c : Cfg w)           -- `Ok(true)` at a failing I/O operation
  | interrupted (c : Cfg w)       -- `Ok(false)`: budget exhausted
  | notOpened (pos : Nat) (c : Cfg w)  -- `Err(LoopNotOpened, position)`

/-- One iteration of `while pc < code_bytes.len()`. -/
def step (code : Array Kind) (limited : Bool) (c : Cfg w) : StepRes w :=
  match code[c.pc]? with
  | none => .finished c
  | some k =>
    let pc := c.pc + 1
    match k with
    | .left => .next { c with pc := pc, st := c.st.mov (-1) }
    | .right => .next { c with pc := pc, st := c.st.mov 1 }
    | .inc => .next { c with pc := pc, st := c.st.wr 0 (c.st.rd 0 + 1#w) }
    | .dec => .next { c with pc := pc, st := c.st.wr 0 (c.st.rd 0 + (-1#w)) }
    | .out =>
      match c.st.output 0 with
      | (true, s) => .next { c with pc := pc, st := s }
      | (false, s) => .stopped { c with pc := pc, st := s }
    | .inp =>
      match c.st.input 0 with
      | (true, s) => .next { c with pc := pc, st := s }
      | (false, s) => .stopped { c with pc := pc, st := s }
    | .open =>
      if c.st.rd 0 = 0#w then
        .next { c with pc := scan code (code.size - pc) pc 0 + 1 }
      else
        .next { c with pc := pc, stack := pc :: c.stack }
    | .close =>
      if limited && c.budget == 0 then .interrupted { c with pc := pc }
      else
        let budget := if limited then c.budget - 1 else c.budget
        match c.stack with
        | [] => .notOpened (pc - 1) { c with pc := pc, budget := budget }
        | target :: rest =>
          if c.st.rd 0 ≠ 0#w then
            .next { c with pc := target, stack := target :: rest, budget := budget }
          else
            .next { c with pc := pc, stack := rest, budget := budget }
    | .comment => .next { c with pc := pc }

inductive Outcome (w : Nat) where
  | finished (c : Cfg w)
  | stopped (c : Cfg w)
  | interrupted (c : Cfg w)
  | notOpened (pos : Nat) (c : Cfg w)
  | outOfFuel (c : Cfg w)

def runCfg (code : Array Kind) (limited : Bool) : Nat → Cfg w → Outcome w
  | 0, c => .outOfFuel c
  | fuel + 1, c =>
    match step code limited c with
    | .next c' => runCfg code limited fuel c'
    | .finished c' => .finished c'
    | .stopped c' => .stopped c'
    | .interrupted c' => .interrupted c'
    | .notOpened p c' => .notOpened p c'

/-- Run the in-place interpreter from the initial configuration. -/
def run (code : Array Kind) (limited : Bool) (budget : Nat) (fuel : Nat) (env : Env) : Outcome w :=
  runCfg code limited fuel { pc := 0, stack := [], budget := budget, st := State.init env }

end Inplace
end Hpbf
