/-
Model of `src/smallvec.rs`: `SmallVec<T, N>` with the `u8` size field used as discriminant
(`size ≤ N`: inline array of `MaybeUninit<T>` slots, `size = N + 1`: heap `Vec<T>`), and the
by-value iterator `SmallVecIntoIter`.

Ownership is modelled explicitly so that "dropped exactly once" is a statement about the model:
an inline slot is `some v` when it owns `v` and `none` when uninitialised or moved out;
`assume_init_read/ref/drop` on a `none` slot is undefined behaviour (`Except.error`);
`MaybeUninit::write` over a `some` slot leaks the old value (reported in `leaked`);
every operation reports the values it drops, in order.
-/
namespace Hpbf
namespace SmallVec

inductive UB where
  | readUninit (slot : Nat)     -- assume_init_* on an uninitialised / moved-out slot
  | badIndex (i : Nat)          -- indexing out of bounds (a Rust panic, not UB)
  deriving Repr, DecidableEq, Inhabited

structure SV (α : Type) where
  cap : Nat                     -- the const parameter `N`
  size : Nat                    -- the `u8` field
  arr : List (Option α)         -- the `N` inline slots
  vec : List α                  -- the heap vector (meaningful iff `size > cap`)
  deriving Repr, DecidableEq, Inhabited

/-- Result of an operation: new vector, values dropped (in order), values leaked. -/
structure R (α : Type) where
  sv : SV α
  dropped : List α := []
  leaked : List α := []
  deriving Repr, Inhabited

variable {α : Type}

/-- `SmallVec::new`. -/
def new (cap : Nat) : SV α := { cap := cap, size := 0, arr := List.replicate cap none, vec := [] }

/-- `SmallVec::from_vec`. -/
def fromVec (cap : Nat) (v : List α) : SV α :=
  { cap := cap, size := cap + 1, arr := List.replicate cap none, vec := v }

/-- `SmallVec::with_capacity`. -/
def withCapacity (cap : Nat) (n : Nat) : SV α := if n ≤ cap then new cap else fromVec cap []

def isInline (s : SV α) : Bool := s.size ≤ s.cap

/-- `assume_init_ref` on slot `i`. -/
def slotRef (arr : List (Option α)) (i : Nat) : Except UB α :=
  match arr[i]? with
  | some (some v) => .ok v
  | _ => .error (.readUninit i)

/-- `assume_init_read` (move out) / `assume_init_drop` on slot `i`. -/
def slotTake (arr : List (Option α)) (i : Nat) : Except UB (α × List (Option α)) :=
  match arr[i]? with
  | some (some v) => .ok (v, arr.set i none)
  | _ => .error (.readUninit i)

/-- `MaybeUninit::write` on slot `j`: returns the overwritten (leaked) value, if any. -/
def slotWrite (arr : List (Option α)) (j : Nat) (v : α) : List (Option α) × List α :=
  match arr[j]? with
  | some (some old) => (arr.set j (some v), [old])
  | _ => (arr.set j (some v), [])

/-- Read the first `n` slots by reference (`as_slice` on the inline representation). -/
def slotsRef (arr : List (Option α)) : Nat → Except UB (List α)
  | 0 => .ok []
  | n + 1 =>
    match slotsRef arr n with
    | .error e => .error e
    | .ok l =>
      match slotRef arr n with
      | .error e => .error e
      | .ok v => .ok (l ++ [v])

/-- `as_slice`. -/
def view (s : SV α) : Except UB (List α) :=
  if s.size ≤ s.cap then slotsRef s.arr s.size else .ok s.vec

/-- Move the slots `i, i+1, …, i+n-1` out (or drop them in place), in that order. -/
def slotsTake (arr : List (Option α)) (i : Nat) : Nat → Except UB (List α × List (Option α))
  | 0 => .ok ([], arr)
  | n + 1 =>
    match slotTake arr i with
    | .error e => .error e
    | .ok (v, arr') =>
      match slotsTake arr' (i + 1) n with
      | .error e => .error e
      | .ok (vs, arr'') => .ok (v :: vs, arr'')

/-- `SmallVec::push` (with `push_promote` and `push_to_vec`). -/
def push (s : SV α) (x : α) : Except UB (R α) :=
  if s.size < s.cap then
    let (arr, leaked) := slotWrite s.arr s.size x
    .ok { sv := { s with arr := arr, size := s.size + 1 }, leaked := leaked }
  else if s.size = s.cap then
    -- push_promote: read all N slots into a fresh Vec, push, overwrite `self` without dropping
    match slotsTake s.arr 0 s.cap with
    | .error e => .error e
    | .ok (vs, arr) =>
      .ok { sv := { s with size := s.cap + 1, vec := vs ++ [x], arr := List.replicate s.cap none },
            leaked := arr.filterMap id }
  else
    .ok { sv := { s with vec := s.vec ++ [x] } }

/-- `SmallVec::extend`. -/
def extend (s : SV α) : List α → Except UB (R α)
  | [] => .ok { sv := s }
  | x :: xs =>
    match push s x with
    | .error e => .error e
    | .ok r =>
      match extend r.sv xs with
      | .error e => .error e
      | .ok r' => .ok { sv := r'.sv, dropped := r.dropped ++ r'.dropped, leaked := r.leaked ++ r'.leaked }

/-- `SmallVec::clear` for an element type that needs drop. -/
def clear (s : SV α) : Except UB (R α) :=
  if s.size ≤ s.cap then
    match slotsTake s.arr 0 s.size with
    | .error e => .error e
    | .ok (vs, arr) => .ok { sv := { s with arr := arr, size := 0 }, dropped := vs }
  else .ok { sv := { s with vec := [] }, dropped := s.vec }

/-- `Drop for SmallVec`. -/
def dropAll (s : SV α) : Except UB (R α) :=
  if s.size ≤ s.cap then
    match slotsTake s.arr 0 s.size with
    | .error e => .error e
    | .ok (vs, arr) => .ok { sv := { s with arr := arr, size := 0 }, dropped := vs, leaked := arr.filterMap id }
  else .ok { sv := { s with vec := [], size := 0, arr := List.replicate s.cap none }, dropped := s.vec }

/-- State of the inline `retain_mut` loop: slots, new size `j`, dropped, leaked. -/
structure Loop (α : Type) where
  arr : List (Option α)
  j : Nat
  dropped : List α
  leaked : List α

/-- Inline branch of `retain`/`retain_mut`, iterations `i, i+1, …` (`n` of them). `f` is the
predicate, returning the possibly mutated element and the verdict. `dropRejected` selects the
repaired behaviour (rejected elements are dropped in place) or the original one (they are not). -/
def retainLoop (dropRejected : Bool) (f : α → α × Bool) (st : Loop α) (i : Nat) :
    Nat → Except UB (Loop α)
  | 0 => .ok st
  | n + 1 =>
    match slotRef st.arr i with
    | .error e => .error e
    | .ok v =>
      let (v', keep) := f v
      let arr := st.arr.set i (some v')
      if keep then
        if i ≠ st.j then
          match slotTake arr i with
          | .error e => .error e
          | .ok (val, arr1) =>
            let (arr2, lk) := slotWrite arr1 st.j val
            retainLoop dropRejected f { st with arr := arr2, j := st.j + 1, leaked := st.leaked ++ lk } (i + 1) n
        else retainLoop dropRejected f { st with arr := arr, j := st.j + 1 } (i + 1) n
      else if dropRejected then
        match slotTake arr i with
        | .error e => .error e
        | .ok (val, arr1) =>
          retainLoop dropRejected f { st with arr := arr1, dropped := st.dropped ++ [val] } (i + 1) n
      else retainLoop dropRejected f { st with arr := arr } (i + 1) n

/-- `Vec::retain_mut` on the heap representation. -/
def vecRetainMut (f : α → α × Bool) : List α → List α × List α
  | [] => ([], [])
  | x :: xs =>
    let (x', keep) := f x
    let (ks, ds) := vecRetainMut f xs
    if keep then (x' :: ks, ds) else (ks, x' :: ds)

/-- `SmallVec::retain_mut` (and `retain`, whose predicate does not mutate). -/
def retainMut (dropRejected : Bool) (s : SV α) (f : α → α × Bool) : Except UB (R α) :=
  if s.size ≤ s.cap then
    match retainLoop dropRejected f { arr := s.arr, j := 0, dropped := [], leaked := [] } 0 s.size with
    | .error e => .error e
    | .ok st => .ok { sv := { s with arr := st.arr, size := st.j }, dropped := st.dropped, leaked := st.leaked }
  else
    let (ks, ds) := vecRetainMut f s.vec
    .ok { sv := { s with vec := ks }, dropped := ds }

/-- Inline branch of `dedup`, iterations `i, i+1, …`. -/
def dedupLoop (dropRejected : Bool) (eq : α → α → Bool) (st : Loop α) (i : Nat) :
    Nat → Except UB (Loop α)
  | 0 => .ok st
  | n + 1 =>
    match slotRef st.arr i, slotRef st.arr (st.j - 1) with
    | .error e, _ => .error e
    | _, .error e => .error e
    | .ok a, .ok b =>
      if !(eq a b) then
        if i ≠ st.j then
          match slotTake st.arr i with
          | .error e => .error e
          | .ok (val, arr1) =>
            let (arr2, lk) := slotWrite arr1 st.j val
            dedupLoop dropRejected eq { st with arr := arr2, j := st.j + 1, leaked := st.leaked ++ lk } (i + 1) n
        else dedupLoop dropRejected eq { st with j := st.j + 1 } (i + 1) n
      else if dropRejected then
        match slotTake st.arr i with
        | .error e => .error e
        | .ok (val, arr1) =>
          dedupLoop dropRejected eq { st with arr := arr1, dropped := st.dropped ++ [val] } (i + 1) n
      else dedupLoop dropRejected eq st (i + 1) n

/-- `Vec::dedup`: keep the first of each run of equal elements; returns (kept, dropped). -/
def vecDedup (eq : α → α → Bool) : List α → List α × List α
  | [] => ([], [])
  | [x] => ([x], [])
  | x :: y :: rest =>
    if eq y x then
      let (ks, ds) := vecDedup eq (x :: rest)
      (ks, y :: ds)
    else
      let (ks, ds) := vecDedup eq (y :: rest)
      (x :: ks, ds)
termination_by l => l.length

/-- `SmallVec::dedup`. -/
def dedup (dropRejected : Bool) (s : SV α) (eq : α → α → Bool) : Except UB (R α) :=
  if s.size ≤ s.cap then
    if s.size ≠ 0 then
      match dedupLoop dropRejected eq { arr := s.arr, j := 1, dropped := [], leaked := [] } 1 (s.size - 1) with
      | .error e => .error e
      | .ok st => .ok { sv := { s with arr := st.arr, size := st.j }, dropped := st.dropped, leaked := st.leaked }
    else .ok { sv := s }
  else
    let (ks, ds) := vecDedup eq s.vec
    .ok { sv := { s with vec := ks }, dropped := ds }

/-- Overwrite the first `vs.length` slots (used by in-place slice operations such as `sort`,
which permute initialised elements without dropping). -/
def storeSlots (arr : List (Option α)) (vs : List α) : List (Option α) :=
  vs.map some ++ arr.drop vs.length

/-- A slice operation through `DerefMut` that permutes / rewrites the elements in place. -/
def mapSlice (s : SV α) (g : List α → List α) : Except UB (SV α) :=
  match view s with
  | .error e => .error e
  | .ok vs =>
    if s.size ≤ s.cap then .ok { s with arr := storeSlots s.arr (g vs) } else .ok { s with vec := g vs }

/-- `Clone for SmallVec` with `cl` cloning one element. -/
def clone (s : SV α) (cl : α → α) : Except UB (R α) :=
  match view s with
  | .error e => .error e
  | .ok vs =>
    if vs.length ≤ s.cap then extend (new s.cap) (vs.map cl)
    else .ok { sv := fromVec s.cap (vs.map cl) }

/-- `SmallVecIntoIter`. -/
inductive Iter (α : Type) where
  | small (arr : List (Option α)) (i : Nat) (size : Nat)
  | large (rest : List α)
  deriving Repr, Inhabited

/-- `IntoIterator for SmallVec` (by value): `self` is forgotten, its storage moves to the iterator. -/
def intoIter (s : SV α) : Iter α :=
  if s.size ≤ s.cap then .small s.arr 0 s.size else .large s.vec

/-- `Iterator::next`. -/
def Iter.next : Iter α → Except UB (Option α × Iter α)
  | .small arr i size =>
    if i < size then
      match slotTake arr i with
      | .error e => .error e
      | .ok (v, arr') => .ok (some v, .small arr' (i + 1) size)
    else .ok (none, .small arr i size)
  | .large [] => .ok (none, .large [])
  | .large (x :: xs) => .ok (some x, .large xs)

/-- `Drop for SmallVecIntoIter`: returns (dropped, leaked). -/
def Iter.dropRest : Iter α → Except UB (List α × List α)
  | .small arr i size =>
    match slotsTake arr i (size - i) with
    | .error e => .error e
    | .ok (vs, arr') => .ok (vs, arr'.filterMap id)
  | .large rest => .ok (rest, [])

end SmallVec
end Hpbf
