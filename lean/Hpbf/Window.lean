/-
The address discipline of the bytecode executors: where the tape pointer is inside the tape
allocation (`Lay`), how the bounds-checked mode of the threaded interpreter (`checkl`/`checkr`,
`enter_ops`), the bounds-checked mode of the baseline JIT (one-cell probe + `hpbf_context_extend`) and
the unchecked mode move it and grow the allocation, and a run of the bytecode machine instrumented
with this layout (`runLay`), which records whether every tape access was inside the allocation.

Growth uses the arithmetic of `Mem.growth` (model of `Memory::make_accessible`, property C09).
-/
import Hpbf.Bc
import Hpbf.BcWf
import Hpbf.Mem

namespace Hpbf
namespace Window

/-- `size` = cells in the current allocation, `cur` = physical index of the tape pointer in it
(may be outside `[0, size)` between a move and the probe that follows it). -/
structure Lay where
  size : Nat
  cur : Int
  deriving Repr, DecidableEq, Inhabited

/-- `make_accessible(a, b)` relative to the pointer: new size, pointer index shifted by `added_below`. -/
def Lay.grow (l : Lay) (a b : Int) : Lay :=
  let m : Mem 8 := { buf := #[], size := l.size, offset := wrapU64 l.cur }
  let g := m.growth a b
  if g.1 = 0 ∧ g.2.1 = 0 then l else { size := g.2.2.1, cur := l.cur + (g.2.2.2 : Int) }

def Lay.inBounds (l : Lay) (o : Int) : Bool := decide (0 ≤ l.cur + o) && decide (l.cur + o < (l.size : Int))

/-- The whole declared access window is inside the allocation. -/
def Lay.InWindow (l : Lay) (mn mx : Int) : Prop := 0 ≤ l.cur + mn ∧ l.cur + mx < (l.size : Int)

inductive Mode where
  | threadedSafe      -- `movl/movr/scanl/scanr::<SAFE = true>`: probe one edge, grow the whole window
  | jitSafe           -- JIT `Mov` with `safe`: probe one edge, make the probe cell accessible
  | unchecked         -- `SAFE = false` / JIT without probes
  deriving Repr, DecidableEq, Inhabited

/-- A pointer move by `sh` cells followed by the mode's bounds handling. -/
def Lay.move (mode : Mode) (mn mx : Int) (l : Lay) (sh : Int) : Lay :=
  let l' : Lay := { l with cur := l.cur + sh }
  match mode with
  | .unchecked => l'
  | .threadedSafe =>
    let probe := if sh < 0 then mn else mx
    if l'.inBounds probe then l' else l'.grow mn (mx + 1)
  | .jitSafe =>
    let probe := if sh < 0 then mn else mx
    if l'.inBounds probe then l'
    else
      -- offset := index of the probe cell; extend(0, 1); pointer := buffer + offset - probe
      let lp : Lay := { l' with cur := l'.cur + probe }
      let lg := lp.grow 0 1
      { lg with cur := lg.cur - probe }

/-- Layout at entry: `make_accessible(min, max + 1)` (threaded: `enter_ops`, JIT: `enter_jit_code`).
In unchecked mode the caller has pre-grown the tape; nothing is done. -/
def Lay.enter (mode : Mode) (mn mx : Int) (l : Lay) : Lay :=
  match mode with
  | .unchecked => l
  | _ => l.grow mn (mx + 1)

variable {w : Nat}

/-- Result of an instrumented run: outcome of the bytecode machine, final layout, and whether every
tape access happened inside the allocation. -/
structure LRes (w : Nat) where
  out : Bc.Outcome w
  lay : Lay
  ok : Bool

/-- Layout change caused by one executed instruction: only `mov` and a moving `scan` move the pointer. -/
def layStep (mode : Mode) (p : Bc.Program w) (c c' : Bc.Cfg w) (l : Lay) : Lay :=
  match p.insts[c.pc]? with
  | some (.mov sh) => l.move mode p.minAcc p.maxAcc sh
  | some (.scan _ sh) => if c'.pc = c.pc ∧ sh ≠ 0 then l.move mode p.minAcc p.maxAcc sh else l
  | _ => l

/-- Are all tape operands of the instruction at `pc` inside the allocation? -/
def accessOk (p : Bc.Program w) (pc : Nat) (l : Lay) : Bool :=
  match p.insts[pc]? with
  | some ins => (BcWf.memOps ins).all l.inBounds
  | none => true

def runLay (mode : Mode) (p : Bc.Program w) (limited : Bool) : Nat → Bc.Cfg w → Lay → Bool → LRes w
  | 0, c, l, ok => { out := .outOfFuel c, lay := l, ok := ok }
  | fuel + 1, c, l, ok =>
    let ok := ok && accessOk p c.pc l
    match Bc.step p limited c with
    | .next c' => runLay mode p limited fuel c' (layStep mode p c c' l) ok
    | .halt c' => { out := .done c', lay := l, ok := ok }
    | .stop c' => { out := .stopped c', lay := l, ok := ok }
    | .interrupted c' => { out := .interrupted c', lay := l, ok := ok }
    | .bad c' => { out := .bad c', lay := l, ok := ok }

/-- A complete execution from a fresh context (`Memory::new()`: size 0, pointer index 0), or from a
pre-grown one (`l0`). -/
def run (mode : Mode) (p : Bc.Program w) (limited : Bool) (budget fuel : Nat) (env : Env) (l0 : Lay) : LRes w :=
  let c : Bc.Cfg w := { pc := 0, temps := [], budget := budget, st := State.init env }
  if limited && budget == 0 then { out := .interrupted c, lay := l0, ok := true }
  else runLay mode p limited fuel c (l0.enter mode p.minAcc p.maxAcc) true

end Window
end Hpbf
