/-
Model of the x86-64 encoder `src/exec/basejit/asm.rs`.

`X86` is an abstract instruction type with one constructor per emitter family of `asm.rs`
(`emit_add_rm64_i32`/`emit_add_rm32_i32`/`emit_add_rm16_i16`/`emit_add_rm8_i8` = `addRmImm` at the four
sizes, ...). `encode` gives exactly the bytes the Rust emitter pushes: `rex` is `emit_rex`, `modrm` is
`emit_modrm` (ModRM, SIB and displacement).

Immediates and displacements are `Int`s; an emitter taking an `i8`/`i16`/`i32`/`i64` writes the low
1/2/4/8 bytes of the value (two's complement), and the `is_small` tests are made on the `Int` itself, so
for values inside the Rust parameter type the bytes coincide with the Rust ones.
-/
import Hpbf.Cell

namespace Hpbf
namespace Asm

/-- `asm.rs::Reg` (the discriminant is the hardware encoding). -/
inductive Reg where
  | rax | rcx | rdx | rbx | rsp | rbp | rsi | rdi
  | r8 | r9 | r10 | r11 | r12 | r13 | r14 | r15
  deriving Repr, DecidableEq, Inhabited

/-- `reg as u8`. -/
def Reg.code : Reg → Nat
  | .rax => 0 | .rcx => 1 | .rdx => 2 | .rbx => 3 | .rsp => 4 | .rbp => 5 | .rsi => 6 | .rdi => 7
  | .r8 => 8 | .r9 => 9 | .r10 => 10 | .r11 => 11 | .r12 => 12 | .r13 => 13 | .r14 => 14 | .r15 => 15

/-- `Reg::enc`: the low three bits. -/
def Reg.enc (r : Reg) : Nat := r.code % 8

/-- `reg as u8 >> 3`: the bit that goes into the REX prefix. -/
def Reg.hi (r : Reg) : Nat := r.code / 8

/-- `asm.rs::RegMem`. -/
inductive RegMem where
  | reg (r : Reg)
  | mem (base : Option Reg) (index : Option Reg) (scale : Nat) (disp : Int)
  deriving Repr, DecidableEq, Inhabited

/-- `asm.rs::JmpPred`. -/
inductive JmpPred where
  | below | equal | notEqual
  deriving Repr, DecidableEq, Inhabited

/-- `pred as u8`. -/
def JmpPred.code : JmpPred → Nat
  | .below => 0x02 | .equal => 0x04 | .notEqual => 0x05

/-- Operand size of an emitter family (`rm8`/`rm16`/`rm32`/`rm64`). -/
inductive Size where
  | b8 | b16 | b32 | b64
  deriving Repr, DecidableEq, Inhabited

def Size.ofBits? : Nat → Option Size
  | 8 => some .b8 | 16 => some .b16 | 32 => some .b32 | 64 => some .b64 | _ => none

def Size.bits : Size → Nat
  | .b8 => 8 | .b16 => 16 | .b32 => 32 | .b64 => 64

/-- `C::BITS / 8`. -/
def Size.bytes : Size → Nat
  | .b8 => 1 | .b16 => 2 | .b32 => 4 | .b64 => 8

/-- The 16-bit forms push the operand-size prefix `0x66` before the REX prefix. -/
def Size.prefix : Size → List UInt8
  | .b16 => [0x66] | _ => []

/-- `wide` argument of `emit_rex`. -/
def Size.wide : Size → Bool
  | .b64 => true | _ => false

/-- `isb` argument of `emit_rex`. -/
def Size.isb : Size → Bool
  | .b8 => true | _ => false

/-- Abstract instructions: one constructor per emitter family of `asm.rs`. -/
inductive X86 where
  | push (r : Reg)                                   -- emit_push_r64
  | pop (r : Reg)                                    -- emit_pop_r64
  | addRmImm (sz : Size) (rm : RegMem) (imm : Int)   -- emit_add_rm64_i32 / rm32_i32 / rm16_i16 / rm8_i8
  | addRmR (sz : Size) (rm : RegMem) (r : Reg)       -- emit_add_rm*_r*
  | addRRm (sz : Size) (r : Reg) (rm : RegMem)       -- emit_add_r*_rm*
  | subRmImm (rm : RegMem) (imm : Int)               -- emit_sub_rm64_i32
  | subRmR (sz : Size) (rm : RegMem) (r : Reg)       -- emit_sub_rm*_r*
  | subRRm (sz : Size) (r : Reg) (rm : RegMem)       -- emit_sub_r*_rm*
  | imulRRmImm (r : Reg) (rm : RegMem) (imm : Int)   -- emit_mul_r64_rm64_i32
  | imulRRm (r : Reg) (rm : RegMem)                  -- emit_mul_r64_rm64
  | incRm (sz : Size) (rm : RegMem)                  -- emit_inc_rm*
  | decRm (sz : Size) (rm : RegMem)                  -- emit_dec_rm*
  | movRImm64 (r : Reg) (imm : Int)                  -- emit_mov_r64_i64
  | movRmImm (sz : Size) (rm : RegMem) (imm : Int)   -- emit_mov_rm64_i32 / rm32_i32 / rm16_i16 / rm8_i8
  | movRRm (sz : Size) (r : Reg) (rm : RegMem)       -- emit_mov_r64_rm64 / rm32 / rm16 / rm8 (zero extending)
  | movRmR (sz : Size) (rm : RegMem) (r : Reg)       -- emit_mov_rm*_r*
  | lea (r : Reg) (addr : RegMem)                    -- emit_lea
  | cmpRRm (r : Reg) (rm : RegMem)                   -- emit_cmp_r64_rm64
  | cmpRmImm8 (sz : Size) (rm : RegMem) (imm : Int)  -- emit_cmp_rm*_i8
  | testRm8R8 (rm : RegMem) (r : Reg)                -- emit_test_rm8_r8
  | jmpRel8 (off : Int)                              -- emit_jmp_rel8
  | jccRel8 (p : JmpPred) (off : Int)                -- emit_jcc_rel8
  | jccRel32 (p : JmpPred) (off : Int)               -- emit_jcc_rel32
  | sarRmImm8 (rm : RegMem) (shift : Nat)            -- emit_sar_r64_i8
  | ret                                              -- emit_ret
  | callInd (rm : RegMem)                            -- emit_call_ind
  deriving Repr, DecidableEq, Inhabited

/-! ### Operand ranges -/

/-- `v` is a value of the Rust type `i<bits>`. -/
def fitsS (bits : Nat) (v : Int) : Bool :=
  decide (-((2 : Int) ^ (bits - 1)) ≤ v) && decide (v < (2 : Int) ^ (bits - 1))

/-- The displacement is an `i32` (and the scale a `u8`). -/
def RegMem.fits : RegMem → Bool
  | .reg _ => true
  | .mem _ _ scale disp => decide (scale < 256) && fitsS 32 disp

/-- Type of the immediate of the `*_i32`/`*_i16`/`*_i8` emitter of the given size. -/
def Size.immBits : Size → Nat
  | .b8 => 8 | .b16 => 16 | _ => 32

/-- All operands are values of the parameter types of the Rust emitter. (`encode` is total anyway and
writes the low bytes; the code generator uses `fits` to detect `i32` arithmetic that overflowed.) -/
def X86.fits : X86 → Bool
  | .push _ | .pop _ | .ret => true
  | .addRmImm sz rm imm => rm.fits && fitsS sz.immBits imm
  | .addRmR _ rm _ | .addRRm _ _ rm | .subRmR _ rm _ | .subRRm _ _ rm => rm.fits
  | .subRmImm rm imm => rm.fits && fitsS 32 imm
  | .imulRRmImm _ rm imm => rm.fits && fitsS 32 imm
  | .imulRRm _ rm | .incRm _ rm | .decRm _ rm => rm.fits
  | .movRImm64 _ imm => fitsS 64 imm
  | .movRmImm sz rm imm => rm.fits && fitsS sz.immBits imm
  | .movRRm _ _ rm | .movRmR _ rm _ | .lea _ rm | .cmpRRm _ rm | .testRm8R8 rm _ | .callInd rm => rm.fits
  | .cmpRmImm8 _ rm imm => rm.fits && fitsS 8 imm
  | .jmpRel8 off | .jccRel8 _ off => fitsS 8 off
  | .jccRel32 _ off => fitsS 32 off
  | .sarRmImm8 rm shift => rm.fits && decide (shift < 256)

/-! ### Bytes -/

def byte (n : Nat) : UInt8 := UInt8.ofNat n

/-- `v as u8`. -/
def u8 (v : Int) : UInt8 := UInt8.ofNat (v % 256).toNat

/-- Low `n` bytes of the natural number `v`, little endian. -/
def leNat : Nat → Nat → List UInt8
  | 0, _ => []
  | n + 1, v => UInt8.ofNat (v % 256) :: leNat n (v / 256)

/-- `v.to_le_bytes()` for an `n`-byte two's complement integer. -/
def le (n : Nat) (v : Int) : List UInt8 := leNat n (v % ((2 : Int) ^ (8 * n))).toNat

/-- `(-128..=127).contains(&v)`. -/
def isSmall (v : Int) : Bool := decide (-128 ≤ v) && decide (v ≤ 127)

/-! ### `emit_rex` / `emit_modrm` -/

def optHi : Option Reg → Nat
  | some r => r.hi
  | none => 0          -- `unwrap_or(Reg::Rax) as u8 >> 3`

def optEnc : Option Reg → Nat
  | some r => r.enc
  | none => 0          -- `unwrap_or(Reg::Rax).enc()`

/-- `[Rsp, Rbp, Rsi, Rdi].contains(&r)`: the registers whose low byte is only addressable with a REX
prefix. -/
def needsRexByte : Reg → Bool
  | .rsp | .rbp | .rsi | .rdi => true
  | _ => false

/-- `emit_rex`. -/
def rex (wide isb : Bool) (reg : Option Reg) (rm : RegMem) : List UInt8 :=
  let b := 0x40 + (if wide then 8 else 0) + optHi reg * 4 +
    (match rm with
     | .reg r => r.hi
     | .mem base idx _ _ => optHi idx * 2 + optHi base)
  let forced := isb && (match reg with | some r => needsRexByte r | none => false)
  if b != 0x40 || forced then [byte b] else []

/-- `emit_modrm`: ModRM byte, SIB byte if needed, displacement. -/
def modrm (reg : Option Reg) (op : Nat) (rm : RegMem) : List UInt8 :=
  match rm with
  | .reg r => [byte (0xc0 + op * 8 + optEnc reg * 8 + r.enc)]
  | .mem base idx mul disp =>
    let isSm := isSmall disp && base.isSome
    let isZero := disp == 0 && (match base with | some b => b.enc != 5 | none => false)
    -- `((!is_zero && base.is_some()) as u8) << (6 + !is_small as u32)`
    let mode := if !isZero && base.isSome then (if isSm then 0x40 else 0x80) else 0
    let m := mode + op * 8 + optEnc reg * 8
    let head :=
      match idx, base with
      | none, some b =>
        if b.enc != 4 then [byte (m + b.enc)]
        else [byte (m + 4), byte (Nat.log2 mul * 64 + 4 * 8 + b.enc)]
      | _, _ =>
        [byte (m + 4),
         byte (Nat.log2 mul * 64 + (match idx with | some i => i.enc | none => 4) * 8
               + (match base with | some b => b.enc | none => 5))]
    head ++ (if isZero then [] else if isSm then [u8 disp] else le 4 disp)

/-- The common shape: `[0x66] rex opcode modrm tail`. -/
def ins (pre : List UInt8) (wide isb : Bool) (reg : Option Reg) (opc : List UInt8) (op : Nat)
    (rm : RegMem) (tail : List UInt8) : List UInt8 :=
  pre ++ rex wide isb reg rm ++ opc ++ modrm reg op rm ++ tail

/-- `emit_inc_rm*`. -/
def encInc (sz : Size) (rm : RegMem) : List UInt8 :=
  ins sz.prefix sz.wide sz.isb none [if sz == .b8 then 0xfe else 0xff] 0 rm []

/-- `emit_dec_rm*`. -/
def encDec (sz : Size) (rm : RegMem) : List UInt8 :=
  ins sz.prefix sz.wide sz.isb none [if sz == .b8 then 0xfe else 0xff] 1 rm []

/-- Immediate of the `0x81`/`0xc7` forms: `i32` at sizes 64 and 32, `i16` at size 16. -/
def immFull (sz : Size) (imm : Int) : List UInt8 :=
  match sz with
  | .b16 => le 2 imm
  | .b8 => [u8 imm]
  | _ => le 4 imm

/-- The machine code the Rust emitter of the family pushes. -/
def encode : X86 → List UInt8
  | .push r => rex false false none (.reg r) ++ [byte (0x50 + r.enc)]
  | .pop r => rex false false none (.reg r) ++ [byte (0x58 + r.enc)]
  | .addRmImm sz rm imm =>
    if imm == -1 then encDec sz rm
    else if imm == 1 then encInc sz rm
    else match sz with
      | .b8 => ins [] false true none [0x80] 0 rm [u8 imm]
      | _ =>
        if isSmall imm then ins sz.prefix sz.wide false none [0x83] 0 rm [u8 imm]
        else ins sz.prefix sz.wide false none [0x81] 0 rm (immFull sz imm)
  | .addRmR sz rm r => ins sz.prefix sz.wide sz.isb (some r) [if sz == .b8 then 0x00 else 0x01] 0 rm []
  | .addRRm sz r rm => ins sz.prefix sz.wide sz.isb (some r) [if sz == .b8 then 0x02 else 0x03] 0 rm []
  | .subRmImm rm imm =>
    if imm == 1 then encDec .b64 rm
    else if imm == -1 then encInc .b64 rm
    else if isSmall imm then ins [] true false none [0x83] 5 rm [u8 imm]
    else ins [] true false none [0x81] 5 rm (le 4 imm)
  | .subRmR sz rm r => ins sz.prefix sz.wide sz.isb (some r) [if sz == .b8 then 0x28 else 0x29] 0 rm []
  | .subRRm sz r rm => ins sz.prefix sz.wide sz.isb (some r) [if sz == .b8 then 0x2a else 0x2b] 0 rm []
  | .imulRRmImm r rm imm =>
    if isSmall imm then ins [] true false (some r) [0x6b] 0 rm [u8 imm]
    else ins [] true false (some r) [0x69] 0 rm (le 4 imm)
  | .imulRRm r rm => ins [] true false (some r) [0x0f, 0xaf] 0 rm []
  | .incRm sz rm => encInc sz rm
  | .decRm sz rm => encDec sz rm
  | .movRImm64 r imm =>
    let small := decide (-2147483648 ≤ imm) && decide (imm ≤ 2147483647)
    let smallUns := decide (0 ≤ imm) && decide (imm ≤ 4294967295)
    rex (!smallUns) false none (.reg r) ++
      (if small || smallUns then [0xc7] ++ modrm none 0 (.reg r) ++ le 4 imm
       else [byte (0xb8 + r.enc)] ++ le 8 imm)
  | .movRmImm sz rm imm =>
    ins sz.prefix sz.wide sz.isb none [if sz == .b8 then 0xc6 else 0xc7] 0 rm (immFull sz imm)
  | .movRRm sz r rm =>
    match sz with
    | .b64 => ins [] true false (some r) [0x8b] 0 rm []
    | .b32 => ins [] false false (some r) [0x8b] 0 rm []
    | .b16 => ins [] false false (some r) [0x0f, 0xb7] 0 rm []
    | .b8 => ins [] false false (some r) [0x0f, 0xb6] 0 rm []
  | .movRmR sz rm r => ins sz.prefix sz.wide sz.isb (some r) [if sz == .b8 then 0x88 else 0x89] 0 rm []
  | .lea r addr => ins [] true false (some r) [0x8d] 0 addr []
  | .cmpRRm r rm => ins [] true false (some r) [0x3b] 0 rm []
  | .cmpRmImm8 sz rm imm =>
    ins sz.prefix sz.wide sz.isb none [if sz == .b8 then 0x80 else 0x83] 7 rm [u8 imm]
  | .testRm8R8 rm r => ins [] false true (some r) [0x84] 0 rm []
  | .jmpRel8 off => [0xeb, u8 off]
  | .jccRel8 p off => [byte (0x70 + p.code), u8 off]
  | .jccRel32 p off => [0x0f, byte (0x80 + p.code)] ++ le 4 off
  | .sarRmImm8 rm shift => ins [] true false none [0xc1] 7 rm [byte shift]
  | .ret => [0xc3]
  | .callInd rm => [0xff] ++ modrm none 2 rm

/-- Number of bytes of the encoding. -/
def X86.size (x : X86) : Nat := (encode x).length

/-- Encoding of an instruction sequence. -/
def encodeAll (xs : List X86) : List UInt8 := xs.flatMap encode

end Asm
end Hpbf
