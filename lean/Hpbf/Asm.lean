/-
Model of the x86-64 encoder `src/exec/basejit/asm.rs`. (Port in progress.)
-/
import Hpbf.Cell

namespace Hpbf
namespace Asm

end Asm
end Hpbf
