/-
Model of the bytecode (`src/bc.rs`: `Loc`, `Instr`, `Program`) and of its execution by the threaded-code
interpreter (`src/exec/bcint/mod.rs`, `ops.rs`): operand read order as selected by `op_match!`,
`MemZero` = read-and-clear, `Scan`, `Mov`, branches relative to the instruction index, and the budget
handling of limited mode (`limit` before every branch, `limit(usize::MAX)` before an entered stationary
scan, the `budget == 0` test on (re-)entry).
-/
import Hpbf.Bf

namespace Hpbf
namespace Bc

inductive Loc (w : Nat) where
  | mem (off : Int)
  | memZero (off : Int)
  | tmp (i : Nat)
  | imm (c : BitVec w)
  deriving Repr, DecidableEq, Inhabited

inductive Instr (w : Nat) where
  | noop
  | scan (cond shift : Int)
  | mov (shift : Int)
  | inp (dst : Int)
  | out (src : Int)
  | brz (cond off : Int)
  | brnz (cond off : Int)
  | add (dst src0 src1 : Loc w)
  | sub (dst src0 src1 : Loc w)
  | mul (dst src0 src1 : Loc w)
  | copy (dst src : Loc w)
  deriving Repr, DecidableEq, Inhabited

structure Program (w : Nat) where
  temps : Nat
  minAcc : Int
  maxAcc : Int
  live : Array Nat          -- one u16 bitmap per instruction
  insts : Array (Instr w)
  deriving Repr, Inhabited

variable {w : Nat}

/-- Temporaries: index ↦ value (zero-initialised: `alloc_zeroed`). -/
abbrev Temps (w : Nat) := List (Nat × BitVec w)

def tget (t : Temps w) (i : Nat) : BitVec w :=
  match t with
  | [] => 0#w
  | (k, v) :: rest => if k = i then v else tget rest i

def tset (t : Temps w) (i : Nat) (v : BitVec w) : Temps w :=
  match t with
  | [] => [(i, v)]
  | (k, v') :: rest => if k = i then (k, v) :: rest else (k, v') :: tset rest i v

structure Cfg (w : Nat) where
  pc : Nat
  temps : Temps w
  budget : Nat
  st : State w

/-- `OpRead::read`: value and state afterwards (`MemZero` clears the cell). -/
def readLoc (c : Cfg w) : Loc w → BitVec w × Cfg w
  | .mem off => (c.st.rd off, c)
  | .memZero off => (c.st.rd off, { c with st := c.st.wr off 0#w })
  | .tmp i => (tget c.temps i, c)
  | .imm v => (v, c)

/-- `OpWrite::write`; `none` = no such emitter exists (`unimplemented!` in `emit`). -/
def writeLoc (c : Cfg w) (v : BitVec w) : Loc w → Option (Cfg w)
  | .mem off => some { c with st := c.st.wr off v }
  | .tmp i => some { c with temps := tset c.temps i v }
  | .memZero _ => none
  | .imm _ => none

/-- Is the instruction emitted in its two-operand form `op<Dst, Src>` (pattern `r w`: `dst == src0`
as the same temporary or the same memory cell)? -/
def sameDst : Loc w → Loc w → Bool
  | .tmp i, .tmp j => i == j
  | .mem a, .mem b => a == b
  | _, _ => false

/-- Binary operation as executed by `add/add2`, `sub/sub2`, `mul/mul2`. -/
def binop (f : BitVec w → BitVec w → BitVec w) (c : Cfg w) (dst src0 src1 : Loc w) : Option (Cfg w) :=
  if sameDst dst src0 then
    -- op<Dst, Src>: val0 = Src.read (src1), val1 = Dst.read, Dst.write (f val1 val0)
    let (v0, c1) := readLoc c src1
    let (v1, c2) := readLoc c1 dst
    writeLoc c2 (f v1 v0) dst
  else
    -- op2<Dst, Src0, Src1>: val0 = Src0.read, val1 = Src1.read, Dst.write (f val0 val1)
    let (v0, c1) := readLoc c src0
    let (v1, c2) := readLoc c1 src1
    writeLoc c2 (f v0 v1) dst

inductive StepRes (w : Nat) where
  | next (c : Cfg w)
  | halt (c : Cfg w)          -- `ret`: finished = true
  | stop (c : Cfg w)          -- I/O failure: null ip, finished = true
  | interrupted (c : Cfg w)   -- budget exhausted: finished = false
  | bad (c : Cfg w)           -- malformed bytecode (branch outside the program, `unimplemented!`)

/-- The `limit cost` op: `none` = interrupted (budget set to 0). -/
def charge (c : Cfg w) (cost : Option Nat) : Option (Cfg w) :=
  match cost with
  | some k => if c.budget ≤ k then none else some { c with budget := c.budget - k }
  | none => none     -- cost usize::MAX: `budget <= MAX` always holds

def branchTarget (pc : Nat) (off : Int) (n : Nat) : Option Nat :=
  let t : Int := (pc : Int) + off
  if 0 ≤ t ∧ t ≤ (n : Int) then some t.toNat else none

/-- One bytecode instruction of the threaded interpreter. -/
def step (p : Program w) (limited : Bool) (c : Cfg w) : StepRes w :=
  match p.insts[c.pc]? with
  | none => if c.pc = p.insts.size then .halt c else .bad c
  | some ins =>
    let nxt (c : Cfg w) : StepRes w := .next { c with pc := c.pc + 1 }
    match ins with
    | .noop => nxt c
    | .mov sh => nxt { c with st := c.st.mov sh }
    | .scan cond sh =>
      if c.st.rd cond = 0#w then nxt c
      else if sh = 0 then
        -- stationary scan on a non-zero cell: never terminates; limited mode charges everything
        if limited then .interrupted { c with budget := 0 } else .next c
      else .next { c with st := c.st.mov sh }       -- one iteration of the scan loop, same pc
    | .inp dst =>
      match c.st.input dst with
      | (true, s) => nxt { c with st := s }
      | (false, s) => .stop { c with st := s }
    | .out src =>
      match c.st.output src with
      | (true, s) => nxt { c with st := s }
      | (false, s) => .stop { c with st := s }
    | .brz cond off =>
      let c' := if limited then charge c (some 1) else some c
      match c' with
      | none => .interrupted { c with budget := 0 }
      | some c =>
        if c.st.rd cond = 0#w then
          match branchTarget c.pc off p.insts.size with
          | some t => .next { c with pc := t }
          | none => .bad c
        else nxt c
    | .brnz cond off =>
      let c' := if limited then charge c (some 1) else some c
      match c' with
      | none => .interrupted { c with budget := 0 }
      | some c =>
        if c.st.rd cond ≠ 0#w then
          match branchTarget c.pc off p.insts.size with
          | some t => .next { c with pc := t }
          | none => .bad c
        else nxt c
    | .add d a b => match binop (· + ·) c d a b with | some c' => nxt c' | none => .bad c
    | .sub d a b => match binop (fun x y => x + (-y)) c d a b with | some c' => nxt c' | none => .bad c
    | .mul d a b => match binop (· * ·) c d a b with | some c' => nxt c' | none => .bad c
    | .copy d s =>
      let (v, c1) := readLoc c s
      match writeLoc c1 v d with | some c' => nxt c' | none => .bad c

inductive Outcome (w : Nat) where
  | done (c : Cfg w)
  | stopped (c : Cfg w)
  | interrupted (c : Cfg w)
  | bad (c : Cfg w)
  | outOfFuel (c : Cfg w)

def runCfg (p : Program w) (limited : Bool) : Nat → Cfg w → Outcome w
  | 0, c => .outOfFuel c
  | fuel + 1, c =>
    match step p limited c with
    | .next c' => runCfg p limited fuel c'
    | .halt c' => .done c'
    | .stop c' => .stopped c'
    | .interrupted c' => .interrupted c'
    | .bad c' => .bad c'

/-- `BcInterpreter::execute_in`: in limited mode a zero budget is detected before anything runs. -/
def run (p : Program w) (limited : Bool) (budget fuel : Nat) (env : Env) : Outcome w :=
  let c : Cfg w := { pc := 0, temps := [], budget := budget, st := State.init env }
  if limited && budget == 0 then .interrupted c else runCfg p limited fuel c

end Bc
end Hpbf
