/-
PROPOSED FIX for defect F13 (miscompile at optimisation levels 2 and 3: dead store elimination deletes the store
that restores a "constant but written" cell of a loop, which makes the recorded claim "the loop does not clobber
this cell" false for the program the next rebuild round works on).

The fix only changes what a rebuild round RECORDS, not what it emits: in the analysis node of a loop (or `if`) that
does not move the pointer, `clobbered` becomes the set of ALL cells the emitted body may write — the targets of every
`calc` and `input` instruction of the body, recursively through nested blocks (`targetsL`; inside such a block no
nested block moves the pointer, so the offsets are relative to the loop's own pointer).  This is a superset of the
set recorded today (it adds exactly the cells that are written but judged constant, at any depth).  Then "a cell
outside `clobbered` keeps its value" holds because NO instruction writes it, and dead store elimination, which only
deletes stores, cannot invalidate it.

The fixed pipeline is modelled as a post-pass over the (program, analysis) pair a round returns (`fixClob`), so that
every theorem about `Opt.optimizeOnce` applies unchanged: `optimizeOnceF`, `optimizeRoundsF`, `optimizeMF`,
`optimizeF` mirror `Opt.optimizeOnce`, `Opt.optimizeRounds`, `Opt.optimizeM`, `Opt.optimize`.
Dead store elimination is unaffected: it does not read `clobbered` (`toDAnal`).
-/
import Hpbf.Opt

namespace Hpbf
namespace OptFix
open Opt

variable {w : Nat}

def isBlk : Ir.Instr w → Bool
  | .loop _ _ _ _ => true
  | .ifnz _ _ _ => true
  | _ => false

mutual
/-- The cells an instruction may write, as offsets from the pointer (meaningful when no nested block moves it). -/
def targetsI : Ir.Instr w → List Int
  | .output _ => []
  | .input dst => [dst]
  | .calc calcs => calcs.map (fun c => c.1)
  | .loop _ _ body _ => targetsL body
  | .ifnz _ _ body => targetsL body
def targetsL : List (Ir.Instr w) → List Int
  | [] => []
  | i :: rest => targetsI i ++ targetsL rest
end

mutual
/-- The node of a block with `clobbered` recomputed from the block's body (nodes that move the pointer keep
theirs: nothing can be asked through them). -/
def fixNode : Ir.Instr w → OptAnalysis w → OptAnalysis w
  | .loop _ _ body _, .mk la hs rd cl subs => .mk la hs rd (if hs then cl else targetsL body) (fixSubs body subs)
  | .ifnz _ _ body, .mk la hs rd cl subs => .mk la hs rd (if hs then cl else targetsL body) (fixSubs body subs)
  | _, a => a
/-- The nodes of the nested blocks of a list, in order. -/
def fixSubs : List (Ir.Instr w) → List (OptAnalysis w) → List (OptAnalysis w)
  | [], subs => subs
  | i :: rest, subs =>
    if isBlk i then
      (match subs with
       | a :: subs' => fixNode i a :: fixSubs rest subs'
       | [] => [])
    else fixSubs rest subs
end

/-- The analysis of a program with every `clobbered` recomputed. -/
def fixClob (b : Ir.Block w) (anal : OptAnalysis w) : OptAnalysis w :=
  anal.setSubBlocks (fixSubs b.insts anal.subBlocks)

/-- `Program::optimize_once` with the fix. -/
def optimizeOnceF (b : Ir.Block w) (prevAnal : OptAnalysis w) : M (Ir.Block w × OptAnalysis w) := do
  let (prog, anal) ← optimizeOnce b prevAnal
  pure (prog, fixClob prog anal)

/-- The loop of `optimize` with the fix. -/
def optimizeRoundsF : Nat → Ir.Block w → OptAnalysis w → M (Ir.Block w)
  | 0, prog, _ => pure prog
  | n + 1, prog, anal => do
    let prog ← (deadStoreElimination prog anal : Except String (Ir.Block w))
    let (prog, anal) ← optimizeOnceF prog anal
    optimizeRoundsF n prog anal

def optimizeMF (b : Ir.Block w) (level : Nat) : M (Ir.Block w) :=
  if level != 0 then do
    let (prog, anal) ← optimizeOnceF b (topAnalysis [] [])
    optimizeRoundsF (min level 3 - 1) prog anal
  else pure b

/-- `Program::optimize` with the fix. -/
def optimizeF (b : Ir.Block w) (level : Nat) (orders : Orders) : Except String (Ir.Block w) :=
  match (optimizeMF b level).run orders with
  | .error e => .error e
  | .ok (prog, []) => .ok prog
  | .ok (_, o :: _) => .error s!"order-mismatch unused {o.1}"

end OptFix
end Hpbf
