/-
Shared vocabulary and the canonical Brainfuck semantics every behavioural property refines.

* `Tape w`  – unbounded, zero-initialised tape (association list; only `get`/`set` and the two
              laws `get_set`, `get_empty` are used by proofs).
* `Env`     – input source / output sink including the failure modes of `runtime::Context`.
* `Ev`      – observable events (one-byte input requests and output bytes, interleaved).
* `Kind`    – classification of one source character / byte.
* `Prog`    – bracket tree; `tree` builds it from classified source text (defined iff balanced).
* `Bf.step` / `Bf.run` – the canonical semantics as a continuation machine (one command per step).
No imports: linked into the `driver` executable.
-/
import Hpbf.Cell

namespace Hpbf

/-! ### Tape -/

structure Tape (w : Nat) where
  cells : List (Int × BitVec w)

namespace Tape
variable {w : Nat}

def empty : Tape w := ⟨[]⟩

def lookup : List (Int × BitVec w) → Int → BitVec w
  | [], _ => 0#w
  | (k, v) :: rest, i => if k = i then v else lookup rest i

def erase : List (Int × BitVec w) → Int → List (Int × BitVec w)
  | [], _ => []
  | (k, v) :: rest, i => if k = i then rest else (k, v) :: erase rest i

/-- Value of logical cell `i` (0 if never written). -/
def get (t : Tape w) (i : Int) : BitVec w := lookup t.cells i

/-- Write logical cell `i` (move-to-front keeps hot cells cheap in the executable model). -/
def set (t : Tape w) (i : Int) (v : BitVec w) : Tape w := ⟨(i, v) :: erase t.cells i⟩

theorem lookup_erase (l : List (Int × BitVec w)) (i j : Int) (h : j ≠ i) :
    lookup (erase l i) j = lookup l j := by
  induction l with
  | nil => rfl
  | cons kv rest ih =>
    obtain ⟨k, v⟩ := kv
    simp only [erase, lookup]
    by_cases hk : k = i
    · subst hk; simp [Ne.symm h]
    · simp only [hk, if_false, lookup, ih]

@[simp] theorem get_empty (i : Int) : (empty : Tape w).get i = 0#w := rfl

theorem get_set (t : Tape w) (i j : Int) (v : BitVec w) :
    (t.set i v).get j = if j = i then v else t.get j := by
  unfold get set
  simp only [lookup]
  by_cases h : j = i
  · subst h; simp
  · have h' : ¬ i = j := fun e => h e.symm
    simp [h, h', lookup_erase _ _ _ h]

@[simp] theorem get_set_same (t : Tape w) (i : Int) (v : BitVec w) : (t.set i v).get i = v := by
  simp [get_set]

theorem get_set_ne (t : Tape w) (i j : Int) (v : BitVec w) (h : j ≠ i) :
    (t.set i v).get j = t.get j := by
  simp [get_set, h]

end Tape

/-! ### Environment and events -/

/-- Reply of the input source to one one-byte read request. -/
inductive InResp where
  | byte (b : UInt8)   -- `read` returned 1 byte
  | eof                -- `read` returned 0 bytes: `Context::input` yields `Some(0)`
  | err                -- `read` returned `Err`: `Context::input` yields `None`
  deriving Repr, DecidableEq, Inhabited

/-- Observable events. A failing request is still an attempt the environment sees. -/
inductive Ev where
  | inp (got : UInt8)      -- successful input request (end of input reads as 0)
  | inpFail                -- input request that failed (absent source or read error)
  | out (b : UInt8)        -- output byte accepted
  | outFail (b : UInt8)    -- output byte refused by the sink
  deriving Repr, DecidableEq, Inhabited

/-- `runtime::Context` minus the tape. `input = none` is an absent source (`Context::input` returns
`None` without any request being made); after the listed replies the source is at end of input forever.
`sink = false` is an absent sink (`Context::output` returns `Some(())`, nothing is written).
`outOk = some k`: the sink accepts `k` more bytes and refuses the next; `none`: never refuses. -/
structure Env where
  input : Option (List InResp)
  sink : Bool
  outOk : Option Nat
  deriving Repr, DecidableEq, Inhabited

inductive ReadRes where
  | got (b : UInt8) (e : Env)   -- `Some(b)` (end of input reads as 0)
  | failed (e : Env)            -- the source returned an error: `None`
  | absent                      -- no source: `None`, no request made

namespace Env

/-- `Context::input`. -/
def readByte (e : Env) : ReadRes :=
  match e.input with
  | none => .absent
  | some [] => .got 0 e
  | some (InResp.byte b :: rest) => .got b { e with input := some rest }
  | some (InResp.eof :: rest) => .got 0 { e with input := some rest }
  | some (InResp.err :: rest) => .failed { e with input := some rest }

/-- `Context::output` on a present sink: accepted?, environment afterwards. -/
def writeByte (e : Env) : Bool × Env :=
  match e.outOk with
  | none => (true, e)
  | some 0 => (false, e)
  | some (k + 1) => (true, { e with outOk := some k })

end Env

/-- Machine state shared by all models: tape, logical pointer, environment, events so far
(most recent first). -/
structure State (w : Nat) where
  tape : Tape w
  ptr : Int
  env : Env
  trace : List Ev

namespace State
variable {w : Nat}

def init (env : Env) : State w := { tape := Tape.empty, ptr := 0, env := env, trace := [] }

/-- Read the cell at offset `off` from the pointer. -/
def rd (s : State w) (off : Int) : BitVec w := s.tape.get (s.ptr + off)
/-- Write the cell at offset `off` from the pointer. -/
def wr (s : State w) (off : Int) (v : BitVec w) : State w :=
  { s with tape := s.tape.set (s.ptr + off) v }
def mov (s : State w) (d : Int) : State w := { s with ptr := s.ptr + d }

/-- `,` on the cell at offset `off`: `false` means the program stops here. A failing request is
recorded; an absent source produces no event. -/
def input (s : State w) (off : Int) : Bool × State w :=
  match s.env.readByte with
  | .got b e =>
    (true, { (s.wr off (Cell.fromU8 (BitVec.ofNat 8 b.toNat))) with env := e, trace := Ev.inp b :: s.trace })
  | .failed e => (false, { s with env := e, trace := Ev.inpFail :: s.trace })
  | .absent => (false, s)

/-- `.` on the cell at offset `off`. An absent sink accepts silently. -/
def output (s : State w) (off : Int) : Bool × State w :=
  let b : UInt8 := UInt8.ofNat (Cell.intoU8 (s.rd off)).toNat
  if s.env.sink then
    match s.env.writeByte with
    | (true, e) => (true, { s with env := e, trace := Ev.out b :: s.trace })
    | (false, e) => (false, { s with env := e, trace := Ev.outFail b :: s.trace })
  else (true, s)

end State

/-! ### Source text -/

/-- Classification of one source character (or byte). -/
inductive Kind where
  | inc | dec | left | right | inp | out | open | close | comment
  deriving Repr, DecidableEq, Inhabited

def Kind.ofChar (c : Char) : Kind :=
  if c = '+' then .inc else if c = '-' then .dec else if c = '<' then .left
  else if c = '>' then .right else if c = ',' then .inp else if c = '.' then .out
  else if c = '[' then .open else if c = ']' then .close else .comment

def Kind.ofByte (b : UInt8) : Kind :=
  if b = 43 then .inc else if b = 45 then .dec else if b = 60 then .left
  else if b = 62 then .right else if b = 44 then .inp else if b = 46 then .out
  else if b = 91 then .open else if b = 93 then .close else .comment

/-- The six non-bracket commands. -/
inductive Op where
  | inc | dec | left | right | inp | out
  deriving Repr, DecidableEq, Inhabited

/-- Bracket tree of a program: a sequence whose items are simple commands or loops. -/
inductive Prog where
  | nil
  | cmd (c : Op) (rest : Prog)
  | loop (body : Prog) (rest : Prog)
  deriving Repr, DecidableEq, Inhabited

namespace Bf

/-- Build the tree scanning the text from its END (so no list reversal is needed): `cur` is the
sequence after the current position inside the innermost bracket pair, `stack` the suspended
continuations of the enclosing pairs. -/
def treeRev : List Kind → Prog → List Prog → Option Prog
  | [], cur, [] => some cur
  | [], _, _ :: _ => none                                   -- a `]` without `[`
  | k :: ks, cur, stack =>
    match k with
    | .close => treeRev ks .nil (cur :: stack)
    | .open =>
      match stack with
      | [] => none                                          -- a `[` without `]`
      | outer :: stack' => treeRev ks (.loop cur outer) stack'
    | .inc => treeRev ks (.cmd .inc cur) stack
    | .dec => treeRev ks (.cmd .dec cur) stack
    | .left => treeRev ks (.cmd .left cur) stack
    | .right => treeRev ks (.cmd .right cur) stack
    | .inp => treeRev ks (.cmd .inp cur) stack
    | .out => treeRev ks (.cmd .out cur) stack
    | .comment => treeRev ks cur stack

/-- Bracket tree of a classified source text; `none` iff the brackets are unbalanced. -/
def tree (src : List Kind) : Option Prog := treeRev src.reverse .nil []

variable {w : Nat}

/-- Effect of one non-bracket command; `false` = the program stops (I/O failure). -/
def applyOp (c : Op) (s : State w) : Bool × State w :=
  match c with
  | .inc => (true, s.wr 0 (s.rd 0 + 1#w))
  | .dec => (true, s.wr 0 (s.rd 0 + (-1#w)))
  | .left => (true, s.mov (-1))
  | .right => (true, s.mov 1)
  | .inp => s.input 0
  | .out => s.output 0

/-- Configuration of the canonical machine: code still to run at this nesting level, the
continuations of the enclosing loops, and the state. -/
structure Config (w : Nat) where
  cur : Prog
  conts : List Prog
  st : State w

inductive StepRes (w : Nat) where
  | next (c : Config w)
  | halt (s : State w)      -- ran off the end of the program
  | stop (s : State w)      -- stopped at a failing I/O operation

/-- One step of canonical Brainfuck. A loop `[body]rest` with a non-zero cell runs `body` and then
the same loop again; with a zero cell it continues with `rest`. -/
def step (c : Config w) : StepRes w :=
  match c.cur with
  | .nil =>
    match c.conts with
    | [] => .halt c.st
    | k :: ks => .next { cur := k, conts := ks, st := c.st }
  | .cmd op rest =>
    match applyOp op c.st with
    | (true, s') => .next { cur := rest, conts := c.conts, st := s' }
    | (false, s') => .stop s'
  | .loop body rest =>
    if c.st.rd 0 = 0#w then .next { cur := rest, conts := c.conts, st := c.st }
    else .next { cur := body, conts := (.loop body rest) :: c.conts, st := c.st }

inductive Outcome (w : Nat) where
  | done (s : State w)
  | stopped (s : State w)
  | outOfFuel (c : Config w)

/-- Run at most `fuel` steps. -/
def runCfg : Nat → Config w → Outcome w
  | 0, c => .outOfFuel c
  | fuel + 1, c =>
    match step c with
    | .next c' => runCfg fuel c'
    | .halt s => .done s
    | .stop s => .stopped s

/-- Canonical run of program `p` in environment `env` from the all-zero tape. -/
def run (fuel : Nat) (p : Prog) (env : Env) : Outcome w :=
  runCfg fuel { cur := p, conts := [], st := State.init env }

end Bf
end Hpbf
