/-
Model of `ir::Expr<C>` (`src/ir.rs`): a sum of products `coef * x_{v1} * x_{v2} * …` kept as a list of
parts. Hash maps are modelled as association lists; wherever the Rust iterates a hash map it sorts
the result by a unique key afterwards, so the model is exact. `SmallVec<isize,1>` compares as a slice,
i.e. lexicographically (`cmpVars`).
-/
import Hpbf.Cell

namespace Hpbf

structure Part (w : Nat) where
  coef : BitVec w
  vars : List Int
  deriving Repr, DecidableEq, Inhabited

abbrev Expr (w : Nat) := List (Part w)

namespace Expr
variable {w : Nat}

/-- Slice ordering of `SmallVec<isize, 1>` (lexicographic, a proper prefix is smaller). -/
def cmpVars : List Int → List Int → Ordering
  | [], [] => .eq
  | [], _ :: _ => .lt
  | _ :: _, [] => .gt
  | a :: as, b :: bs => if a < b then .lt else if b < a then .gt else cmpVars as bs

def leVars (a b : List Int) : Bool := cmpVars a b != .gt

/-- Insertion into a list sorted by `le` (stable: goes after equal elements). -/
def insertSorted {α : Type} (le : α → α → Bool) (x : α) : List α → List α
  | [] => [x]
  | y :: ys => if le y x then y :: insertSorted le x ys else x :: y :: ys

/-- Stable sort (what `sort`, `sort_by`, `sort_by_key` do). -/
def stableSort {α : Type} (le : α → α → Bool) (l : List α) : List α :=
  l.foldl (fun acc x => insertSorted le x acc) []

def sortVars (vs : List Int) : List Int := stableSort (fun a b => decide (a ≤ b)) vs

/-- `SmallVec::dedup` / `Vec::dedup` on a list of variables. -/
def dedupVars : List Int → List Int
  | [] => []
  | [x] => [x]
  | x :: y :: rest => if y = x then dedupVars (x :: rest) else x :: dedupVars (y :: rest)
termination_by l => l.length

def val (c : BitVec w) : Expr w := if c = 0#w then [] else [{ coef := c, vars := [] }]
def var (v : Int) : Expr w := [{ coef := 1#w, vars := [v] }]

def opCount (e : Expr w) : Nat :=
  ((e.map (fun p => 2 * p.vars.length)).sum
    + (e.filter (fun p => p.coef != 1#w && p.coef != (-1#w))).length) - 1
def addCount (e : Expr w) : Nat := e.length - 1
def isZero (e : Expr w) : Bool := e.isEmpty

/-- `Expr::evaluate`. -/
def evalPart (f : Int → BitVec w) (p : Part w) : BitVec w :=
  p.vars.foldl (fun acc v => acc * f v) p.coef
def evaluate (e : Expr w) (f : Int → BitVec w) : BitVec w :=
  e.foldl (fun acc p => acc + evalPart f p) 0#w

/-- `HashMap::entry(k).or_insert(0) += c` on an association list. -/
def accum (m : List (List Int × BitVec w)) (k : List Int) (c : BitVec w) : List (List Int × BitVec w) :=
  match m with
  | [] => [(k, c)]
  | (k', c') :: rest => if k' = k then (k', c' + c) :: rest else (k', c') :: accum rest k c

/-- `.into_iter().filter(coef != 0).map(ExprPart)` followed by `sort_by(vars)`. -/
def finish (m : List (List Int × BitVec w)) : Expr w :=
  stableSort (fun a b => leVars a.vars b.vars)
    ((m.filter (fun kc => kc.2 != 0#w)).map (fun kc => { coef := kc.2, vars := kc.1 }))

/-- The one-term fast paths of `mul`: every part is scaled and gets the single term's variables
(`vars.extend(..); vars.sort()`), zero parts are dropped (`retain_mut`), then the parts are re-sorted
by `vars` (`sort_by`). `scaleAppendOrig` is the code before the repair (no sorting), kept for the
witness theorem in `Props/C15`. -/
def scaleAppendOrig (e : Expr w) (p : Part w) : Expr w :=
  (e.map (fun q => { coef := q.coef * p.coef, vars := q.vars ++ p.vars })).filter (fun q => q.coef != 0#w)

def scaleAppend (e : Expr w) (p : Part w) : Expr w :=
  stableSort (fun a b => leVars a.vars b.vars)
    ((e.map (fun q => { coef := q.coef * p.coef, vars := sortVars (q.vars ++ p.vars) })).filter
      (fun q => q.coef != 0#w))

/-- `Expr::mul`. -/
def mul (a b : Expr w) : Expr w :=
  match a, b with
  | [], _ => val 0#w
  | _, [] => val 0#w
  | [p], _ => scaleAppend b p
  | _, [q] => scaleAppend a q
  | _, _ =>
    finish (a.foldl (fun m sp =>
      b.foldl (fun m op => accum m (sortVars (sp.vars ++ op.vars)) (sp.coef * op.coef)) m) [])

/-- `Expr::add`: merge of two part lists ordered by `vars`. -/
def add : Expr w → Expr w → Expr w
  | [], b => b
  | a, [] => a
  | p :: ps, q :: qs =>
    match cmpVars p.vars q.vars with
    | .lt => p :: add ps (q :: qs)
    | .gt => q :: add (p :: ps) qs
    | .eq =>
      let c := p.coef + q.coef
      if c != 0#w then { coef := c, vars := p.vars } :: add ps qs else add ps qs
termination_by a b => a.length + b.length

/-- `Expr::neg`. -/
def neg (e : Expr w) : Expr w := e.map (fun p => { p with coef := -p.coef })

/-- `Expr::half`. -/
def half (e : Expr w) : Option (Expr w) :=
  if e.all (fun p => !Cell.isOdd p.coef) then some (e.map (fun p => { p with coef := Cell.wshr p.coef 1 }))
  else none

/-- `Expr::constant`. -/
def constant (e : Expr w) : Option (BitVec w) :=
  match e with
  | [] => some 0#w
  | [p] => if p.vars.isEmpty then some p.coef else none
  | _ => none

/-- `Expr::identity`. -/
def identity (e : Expr w) : Option Int :=
  match e with
  | [p] => if p.coef = 1#w then (match p.vars with | [v] => some v | _ => none) else none
  | _ => none

/-- `Expr::inc_of`. -/
def incOf (e : Expr w) (v : Int) : Option (Expr w) :=
  if e.any (fun p => p.coef = 1#w && p.vars == [v])
      && e.all (fun p => !p.vars.contains v || p.vars.length == 1) then
    some (e.filter (fun p => !(p.vars == [v])))
  else none

/-- `Expr::prod_inc_of`: the multiple is the coefficient of the LAST part equal to `[v]`. -/
def prodIncOf (e : Expr w) (v : Int) : Option (Expr w × BitVec w) :=
  if e.all (fun p => !p.vars.contains v || p.vars.length == 1) then
    some (e.filter (fun p => !(p.vars == [v])),
          e.foldl (fun m p => if p.vars == [v] then p.coef else m) 0#w)
  else none

/-- `Expr::const_inc_of`. -/
def constIncOf (e : Expr w) (v : Int) : Option (BitVec w) :=
  match e with
  | [p] => if p.coef = 1#w && p.vars == [v] then some 0#w else none
  | [p0, p1] => if p0.vars.isEmpty && p1.coef = 1#w && p1.vars == [v] then some p0.coef else none
  | _ => none

/-- `Expr::prod_of` (the result is re-sorted by `vars`). -/
def prodOf (e : Expr w) (v : Int) : Option (Expr w) :=
  if e.all (fun p => (p.vars.filter (· == v)).length == 1) then
    some (stableSort (fun a b => leVars a.vars b.vars)
      (e.map (fun p => { coef := p.coef, vars := p.vars.filter (· != v) })))
  else none

/-- `Expr::constant_part`. -/
def constantPart (e : Expr w) : BitVec w :=
  match e with
  | [] => 0#w
  | p :: _ => if p.vars.isEmpty then p.coef else 0#w

def variables (e : Expr w) : List Int := e.flatMap (·.vars)

/-- `Expr::mul_parts` (internal to `symb_evaluate`). The general case leaves the parts in hash-map
order in Rust; its callers only accumulate them by key, so the order is immaterial. -/
def mulParts (left right : Expr w) : Expr w :=
  match left, right with
  | [], _ => []
  | _, [] => []
  | [l], _ =>
    (right.map (fun q => { coef := q.coef * l.coef, vars := sortVars (q.vars ++ l.vars) })).filter
      (fun q => q.coef != 0#w)
  | _, [r] =>
    (left.map (fun q => { coef := q.coef * r.coef, vars := sortVars (q.vars ++ r.vars) })).filter
      (fun q => q.coef != 0#w)
  | _, _ =>
    ((right.foldl (fun m rp =>
      left.foldl (fun m lp => accum m (sortVars (rp.vars ++ lp.vars)) (rp.coef * lp.coef)) m) []).filter
        (fun kc => kc.2 != 0#w)).map (fun kc => { coef := kc.2, vars := kc.1 })

/-- Product of the substituted values of `vars` (the inner loop of `symb_evaluate`). -/
def substProd (f : Int → Option (Expr w)) (partial_ : Expr w) : List Int → Option (Expr w)
  | [] => some partial_
  | v :: vs =>
    match f v with
    | none => none
    | some e => substProd f (mulParts partial_ e) vs

/-- Accumulation loop of `symb_evaluate` over the parts. -/
def symbLoop (f : Int → Option (Expr w)) :
    List (Part w) → List (List Int × BitVec w) → Option (List (List Int × BitVec w))
  | [], m => some m
  | p :: ps, m =>
    match p.vars with
    | [] => symbLoop f ps (accum m [] p.coef)
    | [v] =>
      match f v with
      | none => none
      | some e => symbLoop f ps (e.foldl (fun m vp => accum m vp.vars (p.coef * vp.coef)) m)
    | v :: vs =>
      match f v with
      | none => none
      | some e0 =>
        match substProd f e0 vs with
        | none => none
        | some pr => symbLoop f ps (pr.foldl (fun m vp => accum m vp.vars (p.coef * vp.coef)) m)

/-- `Expr::symb_evaluate`. -/
def symbEvaluate (e : Expr w) (f : Int → Option (Expr w)) : Option (Expr w) :=
  match identity e with
  | some v => f v
  | none =>
    match constant e with
    | some c => some (val c)
    | none =>
      match symbLoop f e [] with
      | none => none
      | some m => some (finish m)

/-- Merge parts with equal `vars` that are adjacent after sorting (`chunk_by_mut` loop). -/
def mergeChunks : List (Part w) → List (Part w)
  | [] => []
  | [p] => [p]
  | p :: q :: rest =>
    if p.vars = q.vars then
      -- chunk[0].coef += chunk[i].coef; chunk[i].coef = 0
      match mergeChunks ({ p with coef := p.coef + q.coef } :: rest) with
      | [] => []
      | h :: t => h :: { q with coef := 0#w } :: t
    else p :: mergeChunks (q :: rest)
termination_by l => l.length

/-- Association-list stand-in for `by_reduced : HashMap<vars, indices>`. -/
def lookupIdx (m : List (List Int × List Nat)) (k : List Int) : Option (List Nat) :=
  match m with
  | [] => none
  | (k', v) :: rest => if k' = k then some v else lookupIdx rest k
def pushIdx (m : List (List Int × List Nat)) (k : List Int) (i : Nat) : List (List Int × List Nat) :=
  match m with
  | [] => [(k, [i])]
  | (k', v) :: rest => if k' = k then (k', v ++ [i]) :: rest else (k', v) :: pushIdx rest k i

def setCoef (parts : Array (Part w)) (i : Nat) (c : BitVec w) : Array (Part w) :=
  match parts[i]? with
  | some p => parts.setIfInBounds i { p with coef := c }
  | none => parts

/-- Second phase of `normalize`: the loop over `i` with its inner loop over `others`. -/
def normPhase2 (halfMod halfP halfM : BitVec w) :
    Nat → Nat → Array (Part w) → List (List Int × List Nat) → Bool → Array (Part w) × Bool
  | 0, _, parts, _, need => (parts, need)
  | fuel + 1, i, parts, byRed, need =>
    match parts[i]? with
    | none => (parts, need)
    | some pi =>
      if pi.vars.isEmpty then normPhase2 halfMod halfP halfM fuel (i + 1) parts byRed need
      else
        let key := dedupVars pi.vars
        match lookupIdx byRed key with
        | none => normPhase2 halfMod halfP halfM fuel (i + 1) parts (pushIdx byRed key i) need
        | some others =>
          let (parts, need) := others.foldl (fun (acc : Array (Part w) × Bool) j =>
            let (parts, need) := acc
            match parts[i]?, parts[j]? with
            | some a, some b =>
              let ci := a.coef
              let cj := b.coef
              if ((ci ≤ halfP || ci ≥ halfM) && (cj > 1#w || cj < (-1#w)))
                  || ((ci > 1#w && ci < (-1#w)) && (cj ≤ halfP || cj ≥ halfM)) then
                let ni := ci + halfMod
                let nj := cj + halfMod
                (setCoef (setCoef parts i ni) j nj, need || ni = 0#w || nj = 0#w)
              else (parts, need)
            | _, _ => (parts, need)) (parts, need)
          normPhase2 halfMod halfP halfM fuel (i + 1) parts (pushIdx byRed key i) need

/-- `Expr::normalize`. -/
def normalize (e : Expr w) : Expr w :=
  if !e.isEmpty && e.any (fun p => p.vars.length ≥ 2) then
    let halfMod := Cell.wshl (1#w) (w - 1)
    let halfP := halfMod + 1#w
    let halfM := halfMod + (-1#w)
    let e1 :=
      if e.any (fun p => p.vars.length ≥ 2 && p.coef = halfMod) then
        let e' := e.map (fun p => if p.coef = halfMod then { p with vars := dedupVars p.vars } else p)
        let needElim := (e.zip e').any (fun pq => pq.1.coef = halfMod && pq.1.vars.length != pq.2.vars.length)
        if needElim then
          (mergeChunks (stableSort (fun a b => leVars a.vars b.vars) e')).filter (fun p => p.coef != 0#w)
        else e'
      else e
    if e1.any (fun p => !p.vars.isEmpty && (p.coef ≤ halfP || p.coef ≥ halfM)) then
      let (parts, need) := normPhase2 halfMod halfP halfM e1.length 0 e1.toArray [] false
      if need then parts.toList.filter (fun p => p.coef != 0#w) else parts.toList
    else e1
  else e

end Expr
end Hpbf
