/-
Line-protocol handler for bytecode generation: `bcgen <w> <nregs> <fuse 0/1> <ir text>` replies with the
bytecode text of `BcGen.translate` (format of `Driver3.encodeBc`).
-/
import Hpbf.Driver3
import Hpbf.BcGen

namespace Hpbf
namespace Driver4

def handle (line : String) : String :=
  Driver3.handle line

end Driver4
end Hpbf
