/-
Line-protocol handler for bytecode generation: `bcgen <w> <nregs> <fuse 0/1> <ir text>` replies with the
bytecode text of `BcGen.translate` (format of `Driver3.encodeBc`), or `panic:<site>` where the model
records that the Rust would panic.
-/
import Hpbf.Driver3
import Hpbf.BcGen

namespace Hpbf
namespace Driver4

def bcgen (ws nr fz : String) (rest : List String) : Option String := do
  let w ← ws.toNat?
  let nregs ← nr.toNat?
  let fuse ← Driver.boolOf fz
  let b ← Driver3.decodeBlock w (" ".intercalate rest)
  match BcGen.translateE b nregs fuse with
  | .ok p => some (Driver3.encodeBc p)
  | .error e => some ("panic:" ++ e)

def handle (line : String) : String :=
  let toks := (line.splitOn " ").filter (· ≠ "")
  match toks with
  | "bcgen" :: ws :: nr :: fz :: rest => (bcgen ws nr fz rest).getD "bad-request"
  | _ => Driver3.handle line

end Driver4
end Hpbf
