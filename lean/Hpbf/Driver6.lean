/-
Line-protocol handler tying the instruction semantics `X86Sem` to the processor:

`jitsem <w> <lim> <budget> <fuel> <in> <out> <win> <bytecode…>` (the argument format of `jitrun`).
For straight-line bytecode consisting only of `copy/add/sub/mul` the handler compiles every instruction
with `JitGen.emitInstr` (unlimited, static), runs the abstract instructions with `X86Sem.execAll` from the
all-zero machine state and prints the reply of `jitrun` (`ok - <window> b<budget>`). The harness's
`jitrun` suite runs the machine code `Asm.encode` gives for the same instructions on the CPU.
`unsupported`: the bytecode has another instruction, limited mode is requested, the selector has no arm
(`emitInstr = none`), or an emitted instruction is outside the subset of `X86Sem`.
-/
import Hpbf.Driver5
import Hpbf.X86Sem

namespace Hpbf
namespace Driver6

open Asm X86Sem

def isArith {w : Nat} : Bc.Instr w → Bool
  | .copy .. | .add .. | .sub .. | .mul .. => true
  | _ => false

def plainsOf : List JitGen.Item → Option (List X86)
  | [] => some []
  | .plain x :: rest => (plainsOf rest).map (x :: ·)
  | _ => none

/-- The abstract instructions of the whole (straight-line) program, one list per bytecode instruction. -/
def codeOf {w : Nat} (sz : Size) (p : Bc.Program w) : Option (List (List X86)) :=
  ((p.insts.toList.zip p.live.toList).zipIdx).mapM fun ((ins, live), i) =>
    if isArith ins then
      (JitGen.emitInstr sz false false p.minAcc p.maxAcc 0 0 0 i live ins).bind plainsOf
    else none

def runCode {w : Nat} : List (List X86) → MState w → Option (MState w)
  | [], m => some m
  | xs :: rest, m => (execAll xs m).bind (runCode rest)

def window {w : Nat} (m : MState w) : String :=
  ",".intercalate ((List.range 9).map (fun (i : Nat) => toString (m.tape ((i : Int) - 4)).toNat))

def jitsem (ws lim bud win : String) (bc : List String) : Option String := do
  let w ← ws.toNat?
  let l ← Driver.boolOf lim
  let b ← bud.toNat?
  let wn ← Driver.boolOf win
  let sz ← Size.ofBits? w
  let p ← Driver3.decodeBc w bc
  if l then some "unsupported"
  else
    match (codeOf sz p).bind (fun code => runCode code (MState.zero (w := w))) with
    | some m => some ("ok - " ++ (if wn then window m else "-") ++ " b" ++ toString b)
    | none => some "unsupported"

def handle (line : String) : String :=
  let toks := (line.splitOn " ").filter (· ≠ "")
  match toks with
  | "jitsem" :: ws :: lim :: bud :: _fs :: _sin :: _sout :: win :: bc =>
    (jitsem ws lim bud win bc).getD "bad-request"
  | "jitsem" :: _ => "bad-request"
  | _ => Driver5.handle line

end Driver6
end Hpbf
