/-
The arithmetic cores of the optimiser (`src/opt.rs`): trip counts in `analyze_loop`, and the closed
forms of `loop_motion` (powers, geometric sums, triangular sums with their three halving alternatives).
Each function here is recomputed by the driver on the arguments of EVERY real call made while
optimising the sampled programs (recorded by the `verif` trace hook) and compared with what the Rust
computed; their meaning is proved in `Props/C01` (`OptArith` section).
-/
import Hpbf.Cell
import Hpbf.Expr

namespace Hpbf
namespace OptArith

variable {w : Nat}

/-- `analyze_loop`, constant initial value `m` and constant step `inc`: `m.wrapping_div(inc.wrapping_neg())`
(`none` = the loop never terminates). -/
def tripCount (m inc : BitVec w) : Option (BitVec w) := Cell.wrappingDiv m (-inc)

/-- `analyze_loop`, unknown initial value: the factor `inv` with trip count `inv * x` (`none` unless the step is odd). -/
def tripInv (inc : BitVec w) : Option (BitVec w) := Cell.wrappingInv (-inc)

/-- One round of `wrapping_geometric_sum`'s loop for bit `bit` of `n` (most significant first). -/
def geomStep (mul n : BitVec w) (acc : BitVec w × BitVec w) (bit : Nat) : BitVec w × BitVec w :=
  let sum := acc.1 * (acc.2 + 1#w)
  let pow := acc.2 * acc.2
  if Cell.isOdd (Cell.wshr n bit) then (sum * mul + 1#w, pow * mul) else (sum, pow)

/-- `wrapping_geometric_sum(mul, n)` = `1 + mul + … + mul^(n-1)`: bits of `n` from the top. -/
def geomSum (mul n : BitVec w) : BitVec w :=
  ((List.range w).reverse.foldl (geomStep mul n) (0#w, 1#w)).1

/-- One linear part in `loop_motion` (`for (initial, increment) in linears`): which alternative is
taken (1: halve the increment, 2: halve the trip count, 3: halve trip count - 1, 0: none, the part is
left to run after the loop), and the new `before` expression. -/
def triStep (expr initial increment before : Expr w) : Nat × Expr w :=
  let exprNegOne := Expr.add expr (Expr.val (-1#w))
  match Expr.half increment with
  | some inc => (1, Expr.add (Expr.mul expr initial) (Expr.add before (Expr.mul expr (Expr.mul exprNegOne inc))))
  | none =>
    match Expr.half expr with
    | some inc => (2, Expr.add (Expr.mul expr initial) (Expr.add before (Expr.mul exprNegOne (Expr.mul increment inc))))
    | none =>
      match Expr.half exprNegOne with
      | some inc => (3, Expr.add (Expr.mul expr initial) (Expr.add before (Expr.mul expr (Expr.mul increment inc))))
      | none => (0, before)

end OptArith
end Hpbf
