/-
Driver request for the executable test of the all-level optimizer theorem (`Hpbf/OptCheck.lean`, proved equal to
the proof-side `OptProof.optimizeCheck` by `optimizeCheck_light'`):

  optcheck <w> <level> <N> <in> <out> <source hex> <orders>   →   check-ok | check-false | parse-error | opt-error <msg>

`check-ok` means: `optimize_preserves_of_check_light'` applies to this program, level, oracle and environment.
-/
import Hpbf.Driver9
import Hpbf.OptCheck
import Hpbf.OptFix

namespace Hpbf
namespace Driver10

def handle (line : String) : String :=
  match (line.splitOn " ").filter (· ≠ "") with
  | ["optcheck", ws, ls, ns, sin, sout, hex, ords] =>
    (do
      let w ← ws.toNat?
      let level ← ls.toNat?
      let n ← ns.toNat?
      let env ← Driver.decodeEnv sin sout
      let bs ← Driver.decodeHex hex
      let ks ← Driver.kindsOfUtf8 bs
      let orders ← Driver9.parseOrders ords
      let r := OptCheck.checkReport w n ks level orders env
      some (if r == "check=true" then "check-ok"
            else if r == "check=false" then "check-false"
            else if r.startsWith "optimize-error" then "opt-error " ++ (r.drop 15).toString
            else r)).getD "bad-request"
  | ["optrun", ws, ls, hex, ords] =>
    -- the optimizer as it is in /repo now: `Opt.optimizeOnce` followed by the recomputation of the recorded
    -- `clobbered` sets (fix of F13) = `OptFix.optimizeF`
    (do
      let w ← ws.toNat?
      let level ← ls.toNat?
      let bs ← Driver.decodeHex hex
      let ks ← Driver.kindsOfUtf8 bs
      let orders ← Driver9.parseOrders ords
      some (match Ir.parse (w := w) ks with
        | .error _ => "parse-error"
        | .ok b =>
          match OptFix.optimizeF b level orders with
          | .ok b' => Driver.encodeBlock b'
          | .error e => if e.startsWith "panic:" then "panic" else e)).getD "bad-request"
  | _ => Driver9.handle line

end Driver10
end Hpbf
