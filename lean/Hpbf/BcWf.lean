/-
The safety contract the unsafe back ends (threaded interpreter, baseline JIT) assume about a bytecode
program, as an executable checker `BcWf.check`. Its soundness (Proofs/C11, Props/C11) is stated against
`Bc.step`: a checked program never reaches `.bad`, never leaves its access window, never reads a
temporary before writing it on any path, and every register temporary that is not declared live across
a non-branch instruction is dead after it.

The two dataflow solutions (definitely-initialised temporaries, live temporaries) are COMPUTED by
iteration and then VERIFIED as (post-)fixpoints; soundness only depends on the verification.
-/
import Hpbf.Bc

namespace Hpbf
namespace BcWf

open Bc

variable {w : Nat}

def locTmp : Loc w → List Nat
  | .tmp i => [i]
  | _ => []

def locMem : Loc w → List Int
  | .mem o => [o]
  | .memZero o => [o]
  | _ => []

/-- Temporaries read by an instruction. -/
def uses : Instr w → List Nat
  | .add _ a b => locTmp a ++ locTmp b
  | .sub _ a b => locTmp a ++ locTmp b
  | .mul _ a b => locTmp a ++ locTmp b
  | .copy _ s => locTmp s
  | _ => []

/-- Temporary written by an instruction. -/
def defs : Instr w → List Nat
  | .add d _ _ => locTmp d
  | .sub d _ _ => locTmp d
  | .mul d _ _ => locTmp d
  | .copy d _ => locTmp d
  | _ => []

/-- Tape offsets (relative to the pointer) an instruction touches. -/
def memOps : Instr w → List Int
  | .noop => []
  | .scan c _ => [c]
  | .mov _ => []
  | .inp d => [d]
  | .out s => [s]
  | .brz c _ => [c]
  | .brnz c _ => [c]
  | .add d a b => locMem d ++ locMem a ++ locMem b
  | .sub d a b => locMem d ++ locMem a ++ locMem b
  | .mul d a b => locMem d ++ locMem a ++ locMem b
  | .copy d s => locMem d ++ locMem s

def isBranch : Instr w → Bool
  | .brz _ _ => true
  | .brnz _ _ => true
  | _ => false

/-- A destination must be a memory cell or a temporary (there is no emitter for anything else). -/
def dstOk : Instr w → Bool
  | .add d _ _ | .sub d _ _ | .mul d _ _ | .copy d _ =>
    match d with
    | .mem _ => true
    | .tmp _ => true
    | _ => false
  | _ => true

/-- Successor program counters (the value `insts.size` is the exit). `none` = a branch leaves the program. -/
def succs (n : Nat) (i : Nat) : Instr w → Option (List Nat)
  | .brz _ off => (branchTarget i off n).map (fun t => [i + 1, t])
  | .brnz _ off => (branchTarget i off n).map (fun t => [i + 1, t])
  | _ => some [i + 1]

def subset (a b : List Nat) : Bool := a.all (fun x => b.contains x)
def inter (a b : List Nat) : List Nat := a.filter (fun x => b.contains x)
def union (a b : List Nat) : List Nat := a ++ b.filter (fun x => !a.contains x)
def diff (a b : List Nat) : List Nat := a.filter (fun x => !b.contains x)

/-- Local (per-instruction) conditions: operands inside the window, temporaries below the declared
count, destination kinds, branch targets inside the program. -/
def localOk (p : Program w) : Bool :=
  decide (p.minAcc ≤ 0) && decide (0 ≤ p.maxAcc) && p.live.size == p.insts.size &&
  (List.range p.insts.size).all (fun i =>
    match p.insts[i]? with
    | none => false
    | some ins =>
      (memOps ins).all (fun o => decide (p.minAcc ≤ o) && decide (o ≤ p.maxAcc)) &&
      (uses ins ++ defs ins).all (fun t => decide (t < p.temps)) &&
      dstOk ins && (succs p.insts.size i ins).isSome)

/-! ### definitely-initialised temporaries (forward must-analysis) -/

def getD (a : Array (List Nat)) (i : Nat) : List Nat := (a[i]?).getD []

/-- One round: propagate `ins[i] ∪ defs i` into all successors by intersection. -/
def initRound (p : Program w) (ins : Array (List Nat)) : Array (List Nat) :=
  (List.range p.insts.size).foldl (fun acc i =>
    match p.insts[i]? with
    | none => acc
    | some instr =>
      let out := union (getD acc i) (defs instr)
      match succs p.insts.size i instr with
      | none => acc
      | some ss => ss.foldl (fun acc j => if j < acc.size then acc.setIfInBounds j (inter (getD acc j) out) else acc) acc) ins

def iterate {α : Type} (f : α → α) : Nat → α → α
  | 0, x => x
  | k + 1, x => iterate f k (f x)

/-- Candidate solution: start from ⊤ everywhere except the entry and iterate. -/
def initSolve (p : Program w) : Array (List Nat) :=
  let top := List.range p.temps
  let start : Array (List Nat) := (Array.replicate p.insts.size top).setIfInBounds 0 []
  iterate (initRound p) (p.insts.size * (p.temps + 1) + 1) start

/-- `ins` is a valid "definitely initialised before instruction i" assignment. -/
def initOk (p : Program w) (ins : Array (List Nat)) : Bool :=
  ins.size == p.insts.size &&
  (p.insts.size == 0 || getD ins 0 == []) &&
  (List.range p.insts.size).all (fun i =>
    match p.insts[i]? with
    | none => false
    | some instr =>
      subset (uses instr) (getD ins i) &&
      (match succs p.insts.size i instr with
       | none => false
       | some ss => ss.all (fun j => j ≥ p.insts.size || subset (getD ins j) (union (getD ins i) (defs instr)))))

/-! ### live temporaries (backward may-analysis) -/

/-- Temporaries live before instruction `i` given those live after it. -/
def liveIn (instr : Instr w) (out : List Nat) : List Nat := union (uses instr) (diff out (defs instr))

def liveRound (p : Program w) (outs : Array (List Nat)) : Array (List Nat) :=
  (List.range p.insts.size).foldr (fun i acc =>
    match p.insts[i]? with
    | none => acc
    | some instr =>
      match succs p.insts.size i instr with
      | none => acc
      | some ss =>
        let o := ss.foldl (fun o j =>
          match p.insts[j]? with
          | some ij => union o (liveIn ij (getD acc j))
          | none => o) (getD acc i)
        acc.setIfInBounds i o) outs

def liveSolve (p : Program w) : Array (List Nat) :=
  iterate (liveRound p) (p.insts.size * (p.temps + 1) + 1) (Array.replicate p.insts.size [])

/-- `outs` over-approximates the temporaries live after each instruction, and every register temporary
live after a non-branch instruction (and not written by it) is declared in `live`. -/
def liveOk (p : Program w) (numRegs : Nat) (outs : Array (List Nat)) : Bool :=
  outs.size == p.insts.size &&
  (List.range p.insts.size).all (fun i =>
    match p.insts[i]? with
    | none => false
    | some instr =>
      (match succs p.insts.size i instr with
       | none => false
       | some ss => ss.all (fun j =>
           match p.insts[j]? with
           | some ij => subset (liveIn ij (getD outs j)) (getD outs i)
           | none => true)) &&
      (isBranch instr ||
        (getD outs i).all (fun t =>
          !(decide (t < numRegs) && decide (t < 16)) || (defs instr).contains t ||
            ((p.live[i]?).getD 0).testBit t)))

/-- The checker. `numRegs` is the number of register temporaries the generator was asked for. -/
def check (p : Program w) (numRegs : Nat) : Bool :=
  localOk p && initOk p (initSolve p) && liveOk p numRegs (liveSolve p)

/-- First failing component, for diagnostics. -/
def diagnose (p : Program w) (numRegs : Nat) : String :=
  if !localOk p then "local"
  else if !initOk p (initSolve p) then "init"
  else if !liveOk p numRegs (liveSolve p) then "live"
  else "ok"

end BcWf
end Hpbf
