/-
Line-protocol runner for the proved-sound test `OptProof.optimizeCheck` (the hypothesis of
`optimize_preserves_of_check'`: the previous round's analysis is sound for the program each later round
rebuilds). It imports proof files that depend on Mathlib, so it cannot be linked into the `driver`
executable; it is run with `lake env lean --run OptCheckMain.lean`.

  optcheck <w> <level> <N> <in> <out> <source hex> <orders>   →   check-ok | check-false | parse-error
-/
import Hpbf.Driver9
import Hpbf.Proofs.OptRbRounds3

open Hpbf

def optCheck (line : String) : String :=
  match (line.splitOn " ").filter (· ≠ "") with
  | ["optcheck", ws, ls, ns, sin, sout, hex, ords] =>
    (do
      let w ← ws.toNat?
      let level ← ls.toNat?
      let n ← ns.toNat?
      let env ← Driver.decodeEnv sin sout
      let bs ← Driver.decodeHex hex
      let ks ← Driver.kindsOfUtf8 bs
      let orders ← Driver9.parseOrders ords
      some (match Ir.parse (w := w) ks with
        | .error _ => "parse-error"
        | .ok b =>
          match Opt.optimize b level orders with
          | .error e => "opt-error " ++ e      -- the test would be vacuous: the supplied orders do not fit
          | .ok _ => if OptProof.optimizeCheck n b level orders env then "check-ok" else "check-false")).getD "bad-request"
  | _ => "bad-request"

partial def loopC (h : IO.FS.Stream) (out : IO.FS.Stream) : IO Unit := do
  let line ← h.getLine
  if line.isEmpty then return ()
  out.putStrLn (optCheck (line.trimAscii.toString))
  out.flush
  loopC h out

def main : IO Unit := do
  loopC (← IO.getStdin) (← IO.getStdout)
