/-
Line-protocol driver: one request per input line, one reply per output line. The Rust harness
(`/verif/harness`) writes the same requests, computes its replies by calling the real code, and the
`check` script diffs the two reply streams. Imports model files only (no Mathlib) so that it links.
-/
import Hpbf.Cell
import Hpbf.Bf
import Hpbf.Inplace
import Hpbf.Mem
import Hpbf.SmallVec
import Hpbf.Expr
import Hpbf.Ir
import Hpbf.Driver
import Hpbf.Driver2
import Hpbf.Driver3
import Hpbf.Driver4
import Hpbf.Driver5
import Hpbf.Driver6
import Hpbf.Driver7
import Hpbf.Driver8
import Hpbf.Driver9
import Hpbf.Driver10

open Hpbf

partial def loop (h : IO.FS.Stream) (out : IO.FS.Stream) : IO Unit := do
  let line ← h.getLine
  if line.isEmpty then return ()
  let reply := Driver10.handle (line.trimAscii.toString)
  out.putStrLn reply
  out.flush
  loop h out

def main : IO Unit := do
  let stdin ← IO.getStdin
  let stdout ← IO.getStdout
  loop stdin stdout
  stdout.flush
