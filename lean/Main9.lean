/-
Scratch driver executable for the optimizer port (same line protocol as Main.lean, entry point
`Driver9.handle`); kept separate so that work in progress never breaks the registered `driver`.
-/
import Hpbf.Driver9

open Hpbf

partial def loop9 (h : IO.FS.Stream) (out : IO.FS.Stream) : IO Unit := do
  let line ← h.getLine
  if line.isEmpty then return ()
  out.putStrLn (Driver9.handle (line.trimAscii.toString))
  out.flush
  loop9 h out

def main : IO Unit := do
  loop9 (← IO.getStdin) (← IO.getStdout)
