import Hpbf.Cell
import Hpbf.Bf
import Hpbf.Inplace
import Hpbf.Mem
import Hpbf.SmallVec
import Hpbf.Expr
import Hpbf.Ir
import Hpbf.Driver
