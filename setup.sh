#!/bin/sh
# Build the framework from files on disk only (offline): Lean models + proofs + driver, Rust harness.
set -e
cd /verif/lean
lake build Hpbf driver
# every theorem module a registered check audits (listed in checklib/props.py)
for m in $(cd /verif/checklib && python3 -c "import props; print(' '.join(sorted({m for p in props.PROPS.values() for m in p['modules']})))"); do lake build "$m"; done
cd /verif/harness
CARGO_NET_OFFLINE=true cargo build --offline
CARGO_NET_OFFLINE=true cargo build --offline --release
# the hpbf binary used by the C16 black-box stream (built from /repo into /verif/work)
mkdir -p /verif/work
CARGO_NET_OFFLINE=true cargo build --offline --manifest-path /repo/Cargo.toml --target-dir /verif/work/cli_target --bin hpbf
