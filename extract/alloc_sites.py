#!/usr/bin/env python3
"""Translator for C17: every `alloc_zeroed(` call in /repo/src (outside the LLVM back end, which is not
built) must be followed by a null check that calls `handle_alloc_error` before the pointer is used.
Prints one line per site; exit 1 if a site is unchecked or the pattern cannot be recognised."""
import re, sys, os

def main():
    bad, sites = [], []
    for dp, _, fs in os.walk("/repo/src"):
        for f in fs:
            if not f.endswith(".rs") or f == "llvmjit.rs":
                continue
            p = os.path.join(dp, f)
            lines = open(p).read().split("\n")
            for i, l in enumerate(lines):
                if "alloc_zeroed(" in l and not l.strip().startswith("//") and "use " not in l and "alloc::{" not in l:
                    window = "\n".join(lines[i:i + 5])
                    m = re.search(r"let\s+(\w+)\s*=.*alloc_zeroed\(", l)
                    var = m.group(1) if m else None
                    ok = var is not None and re.search(rf"if\s+{var}\.is_null\(\)\s*\{{\s*handle_alloc_error\(", window)
                    sites.append(f"{os.path.relpath(p, '/repo')}:{i + 1}:{'checked' if ok else 'UNCHECKED'}")
                    if not ok:
                        bad.append(sites[-1])
    print("\n".join(sites))
    if not sites:
        print("no alloc_zeroed site found", file=sys.stderr); sys.exit(1)
    sys.exit(1 if bad else 0)

main()
